package main

import (
	"crypto/sha256"
	"encoding/hex"
	"encoding/json"

	"github.com/microsoft/yardl/tooling/internal/cmd"
	"github.com/microsoft/yardl/tooling/pkg/packaging"
)

func init() {
	// loadpkg: {dir} -> LoadPackage + validatePackage; reports namespaces with content hashes.
	handlers["loadpkg"] = func(req map[string]any) map[string]any {
		dir := str(req, "dir")
		resp := map[string]any{}
		p, err := packaging.LoadPackage(dir)
		if err != nil {
			resp["stage"] = "load"
			resp["err"] = err.Error()
			return resp
		}
		env, warnings, err := cmd.VerifValidatePackage(p)
		resp["warnings"] = warnings
		if err != nil {
			resp["stage"] = "validate"
			resp["err"] = err.Error()
			return resp
		}
		order := []string{}
		content := map[string]string{}
		counts := map[string]int{}
		for _, ns := range env.Namespaces {
			order = append(order, ns.Name)
			counts[ns.Name]++
			b, _ := json.Marshal(ns)
			h := sha256.Sum256(b)
			content[ns.Name] = hex.EncodeToString(h[:8])
		}
		nsrefs := map[string][]string{}
		for _, ns := range env.Namespaces {
			names := []string{}
			for _, r := range ns.References {
				names = append(names, r.Name)
			}
			nsrefs[ns.Name] = names
		}
		resp["nsrefs"] = nsrefs
		refs := []string{}
		for _, r := range p.GetAllReferencedPackages() {
			refs = append(refs, r.Namespace+"@"+r.PackageDir())
		}
		resp["order"] = order
		resp["content"] = content
		resp["counts"] = counts
		resp["refs"] = refs
		resp["err"] = nil
		return resp
	}
}

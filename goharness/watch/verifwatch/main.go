// verifwatch runs ONE execution of `yardl generate --watch` (the real command, instrumented build) under a given schedule.
//
//	verifwatch <scenario.json> <choices, comma separated>
//
// scenario.json: {"dir": package dir, "config": ["-c", "k=v"...], "edits": [{"files": {abs path: content|null}, "events": n}, ...]}
// Output (stdout, last line): JSON {"decisions":[{"enabled":[..],"chosen":i}], "alive":bool, "diverged":bool}
package main

import (
	"encoding/json"
	"fmt"
	"os"
	"path/filepath"
	"sort"
	"strconv"
	"strings"
	"time"

	"github.com/microsoft/yardl/tooling/internal/cmd"
	"github.com/microsoft/yardl/tooling/internal/veriffsn"
	"github.com/microsoft/yardl/tooling/internal/verifsched"
)

type edit struct {
	Files  map[string]*string `json:"files"`
	Events int                `json:"events"`
	Rmdirs []string           `json:"rmdirs"`
	// Quiescent: this edit is made only when no regeneration is in flight and the timer is idle
	Quiescent bool `json:"quiescent"`
}

type scenario struct {
	Dir    string   `json:"dir"`
	Config []string `json:"config"`
	Edits  []edit   `json:"edits"`
}

type decision struct {
	Enabled []string `json:"enabled"`
	Chosen  int      `json:"chosen"`
}

func main() {
	raw, err := os.ReadFile(os.Args[1])
	if err != nil {
		panic(err)
	}
	var sc scenario
	if err := json.Unmarshal(raw, &sc); err != nil {
		panic(err)
	}
	var choices []int
	if len(os.Args) > 2 && os.Args[2] != "" {
		for _, c := range strings.Split(os.Args[2], ",") {
			n, _ := strconv.Atoi(c)
			choices = append(choices, n)
		}
	}
	if err := os.Chdir(sc.Dir); err != nil {
		panic(err)
	}
	realStdout := os.Stdout
	devnull, _ := os.OpenFile(os.DevNull, os.O_WRONLY, 0)
	os.Stdout = devnull // the watcher clears the screen and prints summaries

	os.Args = append([]string{"yardl", "generate", "--watch"}, sc.Config...)
	verifsched.StartActor("R0", func() { cmd.Execute("verif", "verif") })

	var decisions []decision
	pushed := 0
	nextEdit := 0
	last := "R0"
	diverged := false
	unwatched := []int{}
	watchdog := time.AfterFunc(120*time.Second, func() {
		fmt.Fprintln(realStdout, `{"hang":true}`)
		os.Exit(3)
	})
	defer watchdog.Stop()

	waitYield := func() {
		<-verifsched.Yields
	}
	waitYield() // R0 runs to its first point (or to the start of the event loop)
	// the main flow adds "." to the watcher concurrently with the initial regeneration: wait for it, so that the first
	// edit is seen (an edit before the watch exists is lost in the real program too; that start-up window is not explored)
	// If the watch does not appear while the initial regeneration is parked at its first point (it has not read anything yet),
	// the session only starts watching after that regeneration: an edit made meanwhile raises no event and the output stays stale.
	// That is reported as such (30 s is a hang classifier, the watch normally exists within microseconds).
	w0 := veriffsn.WaitCreatedFor(30 * time.Second)
	if w0 == nil {
		fmt.Fprintln(realStdout, `{"unwatched_at_start":true}`)
		os.Exit(0)
	}
	for deadline := time.Now().Add(30 * time.Second); !w0.Watches(sc.Dir); {
		if time.Now().After(deadline) {
			fmt.Fprintln(realStdout, `{"unwatched_at_start":true}`)
			os.Exit(0)
		}
		time.Sleep(time.Millisecond)
	}
	for {
		_, loopStarted, _ := verifsched.State()
		if loopStarted {
			verifsched.WaitResets(pushed)
		}
		armed, loopStarted, _ := verifsched.State()
		parked := verifsched.Parked()
		var names []string
		for _, a := range parked {
			names = append(names, a.Name+"@"+a.At)
		}
		if armed && loopStarted && pushed > 0 {
			names = append(names, "timer")
		}
		if nextEdit < len(sc.Edits) && (!sc.Edits[nextEdit].Quiescent || (len(names) == 0 && loopStarted)) {
			names = append(names, "env")
		}
		if len(names) == 0 {
			break
		}
		// canonical order: the actor scheduled last first (continuing it is not a preemption), then the rest as listed
		ordered := names
		for i, n := range names {
			if strings.SplitN(n, "@", 2)[0] == last {
				ordered = append([]string{n}, append(append([]string{}, names[:i]...), names[i+1:]...)...)
				break
			}
		}
		choice := 0
		if len(decisions) < len(choices) {
			choice = choices[len(decisions)]
			if choice >= len(ordered) {
				diverged = true
				break
			}
		}
		decisions = append(decisions, decision{ordered, choice})
		pick := strings.SplitN(ordered[choice], "@", 2)[0]
		last = pick
		switch {
		case pick == "timer":
			verifsched.Fire()
			waitYield()
		case pick == "env":
			e := sc.Edits[nextEdit]
			nextEdit++
			w := veriffsn.Current
			for _, dir := range e.Rmdirs {
				os.RemoveAll(dir)
				// a watched directory that disappears raises one event for itself and loses its watch
				if w != nil && w.Unwatch(dir) {
					w.Events <- veriffsn.Event{Name: dir, Op: 4}
					pushed++
				}
			}
			paths := make([]string, 0, len(e.Files))
			for path := range e.Files {
				paths = append(paths, path)
			}
			sort.Strings(paths)
			for _, path := range paths {
				content := e.Files[path]
				if content == nil {
					os.Remove(path)
				} else {
					os.MkdirAll(filepath.Dir(path), 0o755)
					if err := os.WriteFile(path, []byte(*content), 0o644); err != nil {
						panic(err)
					}
				}
				if w != nil && w.Watches(filepath.Dir(path)) {
					for i := 0; i < e.Events; i++ {
						w.Events <- veriffsn.Event{Name: path, Op: 2}
						pushed++
					}
				} else {
					unwatched = append(unwatched, nextEdit-1)
				}
			}
		default:
			for _, a := range parked {
				if a.Name == pick {
					verifsched.Grant(a)
					waitYield()
				}
			}
		}
	}
	// liveness probe: the event loop must still take events
	alive := false
	_, loopStarted, before := verifsched.State()
	if loopStarted && veriffsn.Current != nil {
		done := make(chan struct{})
		go func() {
			veriffsn.Current.Events <- veriffsn.Event{Name: "probe", Op: 2}
			verifsched.WaitResets(before + 1)
			close(done)
		}()
		select {
		case <-done:
			alive = true
		case <-time.After(20 * time.Second):
		}
	}
	out, _ := json.Marshal(map[string]any{"decisions": decisions, "alive": alive, "diverged": diverged, "unwatched_edits": unwatched})
	fmt.Fprintln(realStdout, string(out))
	os.Exit(0)
}

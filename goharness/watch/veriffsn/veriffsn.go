// Package veriffsn stands in for github.com/fsnotify/fsnotify in the instrumented watch-mode build: the harness decides
// which events exist. Only the API that generatecommand.go uses is provided.
package veriffsn

import (
	"path/filepath"
	"sync"
	"time"
)

type Op uint32

type Event struct {
	Name string
	Op   Op
}

type Watcher struct {
	Events chan Event
	Errors chan error
	mu     sync.Mutex
	dirs   []string
}

// The one watcher of the process (yardl creates exactly one).
var Current *Watcher
var created = make(chan struct{})

func NewWatcher() (*Watcher, error) {
	w := &Watcher{Events: make(chan Event, 4096), Errors: make(chan error)}
	Current = w
	close(created)
	return w, nil
}

func WaitCreated() *Watcher {
	<-created
	return Current
}

// WaitCreatedFor is WaitCreated with a limit: nil if no watcher has been created by then.
func WaitCreatedFor(d time.Duration) *Watcher {
	select {
	case <-created:
		return Current
	case <-time.After(d):
		return nil
	}
}

func (w *Watcher) Add(dir string) error {
	abs, err := filepath.Abs(dir)
	if err != nil {
		return err
	}
	w.mu.Lock()
	defer w.mu.Unlock()
	for _, d := range w.dirs {
		if d == abs {
			return nil
		}
	}
	w.dirs = append(w.dirs, abs)
	return nil
}

func (w *Watcher) WatchList() []string {
	w.mu.Lock()
	defer w.mu.Unlock()
	return append([]string{}, w.dirs...)
}

func (w *Watcher) Watches(dir string) bool {
	w.mu.Lock()
	defer w.mu.Unlock()
	for _, d := range w.dirs {
		if d == dir {
			return true
		}
	}
	return false
}

// Unwatch drops the watch on a directory, as the kernel does when a watched directory is deleted or moved away.
func (w *Watcher) Unwatch(dir string) bool {
	w.mu.Lock()
	defer w.mu.Unlock()
	for i, d := range w.dirs {
		if d == dir {
			w.dirs = append(w.dirs[:i], w.dirs[i+1:]...)
			return true
		}
	}
	return false
}

func (w *Watcher) Close() error { return nil }

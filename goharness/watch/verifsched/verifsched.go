// Package verifsched is the cooperative scheduler of the instrumented watch-mode build. Exactly one controlled actor runs at
// a time; instrumented code calls Point(name), which parks the running actor until the controller grants it again.
package verifsched

import (
	"os"
	"sync"
	"time"
)

type Actor struct {
	Name    string
	resume  chan struct{}
	At      string // name of the point it is parked at
	Done    bool
	blocked *Mutex // mutex it waits for
}

type Yield struct {
	Actor    *Actor
	Finished bool
}

var (
	mu      sync.Mutex
	cond    = sync.NewCond(&mu)
	Yields  = make(chan Yield, 16)
	current *Actor // actor that is running now
	actors  []*Actor

	// timer state
	Armed       bool
	Resets      int
	timerFunc   func()
	LoopStarted bool
	nextRegen   = 1

	writePoints = os.Getenv("VERIF_WRITE_POINTS") == "1"
)

// StartActor runs f as a controlled actor in its own goroutine; it becomes the running actor immediately.
func StartActor(name string, f func()) *Actor {
	a := &Actor{Name: name, resume: make(chan struct{})}
	mu.Lock()
	actors = append(actors, a)
	current = a
	mu.Unlock()
	go func() {
		f()
		mu.Lock()
		wasCurrent := current == a
		if wasCurrent {
			current = nil
		}
		a.Done = true
		mu.Unlock()
		if wasCurrent {
			Yields <- Yield{a, true}
		}
	}()
	return a
}

// Point parks the running actor. Calls from goroutines that are not the running actor (none are expected) pass through.
func Point(name string) {
	if name == "write" && !writePoints {
		return
	}
	mu.Lock()
	a := current
	if a == nil {
		mu.Unlock()
		return
	}
	a.At = name
	current = nil
	mu.Unlock()
	Yields <- Yield{a, false}
	<-a.resume
}

// Grant resumes a parked actor.
func Grant(a *Actor) {
	mu.Lock()
	current = a
	mu.Unlock()
	a.resume <- struct{}{}
}

func Parked() []*Actor {
	mu.Lock()
	defer mu.Unlock()
	var out []*Actor
	for _, a := range actors {
		if !a.Done && a != current && (a.blocked == nil || !a.blocked.held) {
			out = append(out, a)
		}
	}
	return out
}

// ---- timer shim (time.AfterFunc / Stop / Reset as used by dedupLoop)

type Timer struct{}

// AfterFunc is called once by dedupLoop, right after the initial regeneration: the loop goroutine stops being the
// controlled actor R0 here and becomes the free-running event loop.
func AfterFunc(d time.Duration, f func()) *Timer {
	mu.Lock()
	timerFunc = f
	Armed = false // the loop stops this timer right away; it is armed by the first Reset
	LoopStarted = true
	a := current
	current = nil
	if a != nil {
		a.Done = true
	}
	cond.Broadcast()
	mu.Unlock()
	if a != nil {
		Yields <- Yield{a, true}
	}
	return &Timer{}
}

func (t *Timer) Stop() bool {
	mu.Lock()
	defer mu.Unlock()
	was := Armed
	Armed = false
	return was
}

func (t *Timer) Reset(d time.Duration) bool {
	mu.Lock()
	defer mu.Unlock()
	was := Armed
	Armed = true
	Resets++
	cond.Broadcast()
	return was
}

// WaitResets blocks until the event loop has handled n events in total.
func WaitResets(n int) {
	mu.Lock()
	for Resets < n {
		cond.Wait()
	}
	mu.Unlock()
}

func State() (armed bool, loopStarted bool, resets int) {
	mu.Lock()
	defer mu.Unlock()
	return Armed, LoopStarted, Resets
}

// Fire runs the timer function as a new controlled actor, as time.AfterFunc would in its own goroutine.
func Fire() *Actor {
	mu.Lock()
	Armed = false
	f := timerFunc
	n := nextRegen
	nextRegen++
	mu.Unlock()
	return StartActor("R"+itoa(n), f)
}

func itoa(n int) string {
	if n == 0 {
		return "0"
	}
	s := ""
	for n > 0 {
		s = string(rune('0'+n%10)) + s
		n /= 10
	}
	return s
}

// ---- sync.Mutex stand-in: waiting is visible to the controller (a blocked actor is not enabled until the holder unlocks)

type Mutex struct {
	held bool
}

func (m *Mutex) Lock() {
	for {
		mu.Lock()
		if !m.held {
			m.held = true
			if current != nil {
				current.blocked = nil
			}
			mu.Unlock()
			return
		}
		a := current
		if a == nil {
			// a goroutine outside the scheduler (the event loop): plain blocking wait
			for m.held {
				cond.Wait()
			}
			mu.Unlock()
			continue
		}
		a.At = "mutex"
		a.blocked = m
		current = nil
		mu.Unlock()
		Yields <- Yield{a, false}
		<-a.resume
	}
}

func (m *Mutex) Unlock() {
	mu.Lock()
	m.held = false
	cond.Broadcast()
	mu.Unlock()
}

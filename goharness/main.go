// Verification harness (overlay-only; mapped to tooling/cmd/verifharness/main.go).
// Sub-commands read one JSON object per stdin line and answer with one JSON object per line.
package main

import (
	"bufio"
	"encoding/json"
	"fmt"
	"os"
	"runtime/debug"

	"github.com/rs/zerolog"
)

type handler func(req map[string]any) map[string]any

var handlers = map[string]handler{}

func main() {
	zerolog.SetGlobalLevel(zerolog.WarnLevel)
	if len(os.Args) < 2 {
		fmt.Fprintln(os.Stderr, "usage: verifharness <subcommand>")
		os.Exit(2)
	}
	h, ok := handlers[os.Args[1]]
	if !ok {
		fmt.Fprintln(os.Stderr, "unknown subcommand", os.Args[1])
		os.Exit(2)
	}
	in := bufio.NewReaderSize(os.Stdin, 1<<20)
	out := bufio.NewWriter(os.Stdout)
	dec := json.NewDecoder(in)
	for {
		var req map[string]any
		if err := dec.Decode(&req); err != nil {
			break
		}
		resp := safely(h, req)
		b, _ := json.Marshal(resp)
		out.Write(b)
		out.WriteByte('\n')
		out.Flush()
	}
}

func safely(h handler, req map[string]any) (resp map[string]any) {
	defer func() {
		if r := recover(); r != nil {
			resp = map[string]any{"panic": fmt.Sprint(r), "stack": string(debug.Stack())}
		}
	}()
	return h(req)
}

func str(req map[string]any, k string) string {
	if v, ok := req[k].(string); ok {
		return v
	}
	return ""
}

func errStr(err error) any {
	if err == nil {
		return nil
	}
	return err.Error()
}

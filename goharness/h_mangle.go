package main

import (
	cppc "github.com/microsoft/yardl/tooling/internal/cpp/common"
	"github.com/microsoft/yardl/tooling/internal/formatting"
	matc "github.com/microsoft/yardl/tooling/internal/matlab/common"
	pyc "github.com/microsoft/yardl/tooling/internal/python/common"
)

func init() {
	// mangle: {names: [..]} -> per name the target identifiers derived by each backend
	handlers["mangle"] = func(req map[string]any) map[string]any {
		out := map[string]any{}
		names, _ := req["names"].([]any)
		for _, n := range names {
			s, _ := n.(string)
			out[s] = map[string]string{
				"snake":        formatting.ToSnakeCase(s),
				"pascal":       formatting.ToPascalCase(s),
				"cpp_field":    cppc.FieldIdentifierName(s),
				"cpp_enum":     cppc.EnumValueIdentifierName(s),
				"cpp_computed": cppc.ComputedFieldIdentifierName(s),
				"cpp_type":     cppc.TypeIdentifierName(s),
				"cpp_ns":       cppc.NamespaceIdentifierName(s),
				"py_field":     pyc.FieldIdentifierName(s),
				"py_enum":      pyc.EnumValueIdentifierName(s),
				"py_computed":  pyc.ComputedFieldIdentifierName(s),
				"py_type":      pyc.TypeIdentifierName(s),
				"py_ns":        pyc.NamespaceIdentifierName(s),
				"mat_field":    matc.FieldIdentifierName(s),
				"mat_enum":     matc.EnumValueIdentifierName(s),
				"mat_computed": matc.ComputedFieldIdentifierName(s),
				"mat_type":     matc.TypeIdentifierName(s),
				"mat_ns":       matc.NamespaceIdentifierName(s),
			}
		}
		return map[string]any{"names": out}
	}
}

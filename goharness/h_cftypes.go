package main

import (
	"github.com/microsoft/yardl/tooling/internal/cmd"
	"github.com/microsoft/yardl/tooling/pkg/dsl"
	"github.com/microsoft/yardl/tooling/pkg/packaging"
)

func init() {
	// cftypes: {dir} -> {"types": {record: {computed field: resolved type in yardl short syntax}}}
	handlers["cftypes"] = func(req map[string]any) map[string]any {
		resp := map[string]any{}
		p, err := packaging.LoadPackage(str(req, "dir"))
		if err != nil {
			resp["err"] = err.Error()
			return resp
		}
		env, _, err := cmd.VerifValidatePackage(p)
		if err != nil {
			resp["err"] = err.Error()
			return resp
		}
		out := map[string]map[string]string{}
		for _, td := range env.GetTopLevelNamespace().TypeDefinitions {
			if rec, ok := td.(*dsl.RecordDefinition); ok {
				m := map[string]string{}
				for _, cf := range rec.ComputedFields {
					t := cf.Expression.GetResolvedType()
					if t == nil {
						m[cf.Name] = "<nil>"
					} else {
						m[cf.Name] = dsl.TypeToShortSyntax(t, true)
					}
				}
				out[rec.Name] = m
			}
		}
		resp["types"] = out
		resp["err"] = nil
		return resp
	}
}

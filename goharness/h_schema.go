package main

import (
	"github.com/microsoft/yardl/tooling/internal/cmd"
	"github.com/microsoft/yardl/tooling/pkg/dsl"
	"github.com/microsoft/yardl/tooling/pkg/packaging"
)

func init() {
	// schema: {dir} -> {"schemas": {protocol name: dsl.GetProtocolSchemaString}} for the top-level namespace
	handlers["schema"] = func(req map[string]any) map[string]any {
		resp := map[string]any{}
		p, err := packaging.LoadPackage(str(req, "dir"))
		if err != nil {
			resp["err"] = err.Error()
			return resp
		}
		env, _, err := cmd.VerifValidatePackage(p)
		if err != nil {
			resp["err"] = err.Error()
			return resp
		}
		out := map[string]string{}
		for _, pr := range env.GetTopLevelNamespace().Protocols {
			out[pr.Name] = dsl.GetProtocolSchemaString(pr, env.SymbolTable)
		}
		resp["schemas"] = out
		resp["err"] = nil
		return resp
	}
}

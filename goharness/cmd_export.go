// Overlay-only file (mapped to tooling/internal/cmd/verif_export.go by `go build -overlay`).
// Exports the unexported entry points of package cmd to the verification harness.
package cmd

import (
	"github.com/fsnotify/fsnotify"
	"github.com/microsoft/yardl/tooling/pkg/dsl"
	"github.com/microsoft/yardl/tooling/pkg/packaging"
)

func VerifValidateImpl(configArgs map[string]string) ([]string, error) { return validateImpl(configArgs) }
func VerifGenerateImpl(configArgs map[string]string) (*packaging.PackageInfo, []string, error) {
	return generateImpl(configArgs)
}
func VerifUpdatePackageInfoFromArgs(p *packaging.PackageInfo, configArgs map[string]string) error {
	return updatePackageInfoFromArgs(p, configArgs)
}
func VerifValidatePackage(p *packaging.PackageInfo) (*dsl.Environment, []string, error) {
	return validatePackage(p)
}
func VerifDedupLoop(configArgs map[string]string, w *fsnotify.Watcher, completed chan<- error) {
	dedupLoop(configArgs, w, completed)
}

package main

import (
	"github.com/microsoft/yardl/tooling/internal/cmd"
	"github.com/microsoft/yardl/tooling/pkg/packaging"
)

func init() {
	// frontend: {dir} -> LoadPackage + updatePackageInfoFromArgs (no overrides) + validatePackage: the steps of `yardl validate`.
	handlers["frontend"] = func(req map[string]any) map[string]any {
		dir := str(req, "dir")
		resp := map[string]any{}
		p, err := packaging.LoadPackage(dir)
		if err != nil {
			resp["stage"] = "load"
			resp["err"] = err.Error()
			return resp
		}
		if err := cmd.VerifUpdatePackageInfoFromArgs(p, map[string]string{}); err != nil {
			resp["stage"] = "config"
			resp["err"] = err.Error()
			return resp
		}
		_, warnings, err := cmd.VerifValidatePackage(p)
		resp["warnings"] = warnings
		resp["stage"] = "validate"
		resp["err"] = errStr(err)
		return resp
	}
}

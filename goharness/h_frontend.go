package main

import (
	"github.com/microsoft/yardl/tooling/internal/cmd"
	"github.com/microsoft/yardl/tooling/pkg/packaging"
)

func init() {
	// frontend: {dir} -> LoadPackage + validatePackage (what `yardl validate` does, minus -c overrides).
	handlers["frontend"] = func(req map[string]any) map[string]any {
		dir := str(req, "dir")
		resp := map[string]any{}
		p, err := packaging.LoadPackage(dir)
		if err != nil {
			resp["stage"] = "load"
			resp["err"] = err.Error()
			return resp
		}
		_, warnings, err := cmd.VerifValidatePackage(p)
		resp["warnings"] = warnings
		resp["stage"] = "validate"
		resp["err"] = errStr(err)
		return resp
	}
}

// Package verifmo (overlay-only): puts Go map iteration order under the control of the explorer.
// VERIF_MAPORDER = comma separated "site:mode" (mode a = ascending, d = descending, r<N> = ascending rotated by N);
// sites not listed iterate ascending. VERIF_MAPORDER_LOG=<file> appends the ids of the sites reached (with >= 2 keys).
package verifmo

import (
	"fmt"
	"os"
	"reflect"
	"sort"
	"strconv"
	"strings"
	"sync"
)

var (
	once   sync.Once
	modes  = map[int]string{}
	logf   *os.File
	logged = map[int]bool{}
	mu     sync.Mutex
)

func setup() {
	for _, part := range strings.Split(os.Getenv("VERIF_MAPORDER"), ",") {
		kv := strings.SplitN(part, ":", 2)
		if len(kv) == 2 {
			if id, err := strconv.Atoi(kv[0]); err == nil {
				modes[id] = kv[1]
			}
		}
	}
	if p := os.Getenv("VERIF_MAPORDER_LOG"); p != "" {
		logf, _ = os.OpenFile(p, os.O_APPEND|os.O_CREATE|os.O_WRONLY, 0o644)
	}
}

// Keys returns the keys of m in the order chosen for the site.
func Keys[K comparable, V any](site int, m map[K]V) []K {
	once.Do(setup)
	keys := make([]K, 0, len(m))
	for k := range m {
		keys = append(keys, k)
	}
	sort.Slice(keys, func(i, j int) bool { return less(keys[i], keys[j]) })
	mu.Lock()
	if logf != nil && len(keys) >= 2 && !logged[site] {
		logged[site] = true
		fmt.Fprintf(logf, "%d\n", site)
	}
	mu.Unlock()
	mode := modes[site]
	switch {
	case mode == "d":
		for i, j := 0, len(keys)-1; i < j; i, j = i+1, j-1 {
			keys[i], keys[j] = keys[j], keys[i]
		}
	case strings.HasPrefix(mode, "r") && len(keys) > 0:
		n, _ := strconv.Atoi(mode[1:])
		n %= len(keys)
		keys = append(keys[n:], keys[:n]...)
	}
	return keys
}

func less(a, b any) bool {
	va, vb := reflect.ValueOf(a), reflect.ValueOf(b)
	switch va.Kind() {
	case reflect.String:
		return va.String() < vb.String()
	case reflect.Int, reflect.Int8, reflect.Int16, reflect.Int32, reflect.Int64:
		return va.Int() < vb.Int()
	case reflect.Uint, reflect.Uint8, reflect.Uint16, reflect.Uint32, reflect.Uint64, reflect.Uintptr:
		return va.Uint() < vb.Uint()
	case reflect.Pointer:
		return va.Pointer() < vb.Pointer()
	}
	return fmt.Sprint(a) < fmt.Sprint(b)
}

#!/bin/bash
# tools/intake.sh <id> [check ids...] -- confirms the seeds a sub-agent left in /tmp/wt-<id>/SEED, stores the confirmed ones as
# /verif/seeded/<id>_<next>/ and runs the given checks (default: the property's own, quick tier) against each on a private copy.
id="$1"; shift; checks="${*:-$id}"
wt=/tmp/wt-$id
mkdir -p /dev/shm/intake
for sd in $wt/SEED/${id}_*; do
  [ -d "$sd" ] || continue
  n=1; while [ -d /verif/seeded/${id}_$n ]; do n=$((n+1)); done
  res=$(sh /verif/tools/confirm_seed.sh $wt $sd 2>&1 | tail -4)
  if echo "$res" | grep -q "CONFIRM: OK"; then
    dst=/verif/seeded/${id}_$n; mkdir -p $dst; cp $sd/patch.diff $sd/demo.sh $sd/meta.json $dst/
    echo "INTAKE $sd -> $dst confirmed"
    for c in $checks; do
      r=$(sh /verif/tools/seedtest_copy.sh $dst/patch.diff $c quick 2>&1 | tail -6)
      echo "$r" | sed "s/^/   [$c] /"
    done
  else
    echo "INTAKE $sd NOT confirmed: $res"
  fi
done

#!/opt/veriftools/pyvenv/bin/python
"""tools/onepkg.py <check module> <package index> [filter substring]  -- runs one packed package of the quick tier with tracebacks."""
import sys, os
V = os.path.dirname(os.path.dirname(os.path.abspath(__file__)))
sys.path.insert(0, os.path.join(V, "lib")); sys.path.insert(0, os.path.join(V, "checks"))
os.environ["VERIF_PYTRACE"] = "1"
import importlib, build, shapes, evidence
mod = importlib.import_module(sys.argv[1])
tier = "quick"
sh = [s for s in shapes.shapes(1, tier) if not shapes.has_vector_of_bool(s)]
if sys.argv[1] == "c03":
    sh = sh[::2]
packed = shapes.pack(sh, "Pk")
pkg, index = packed[int(sys.argv[2])]
chk = evidence.Check(sys.argv[1].upper(), "exploration", tier, "one")
mod.worker(chk, pkg, index)
flt = sys.argv[3] if len(sys.argv) > 3 else ""
seen = set()
for key, desc, rep in chk.violations:
    if flt in key + desc and key not in seen:
        seen.add(key)
        print("FAIL", key, "\n   ", desc[:2500], "\n    path", rep["path"], "protocol", rep["protocol"])
print("violations", len(chk.violations), "evaluations", chk.evaluations, chk.extra)

#!/bin/sh
# tools/seedtest_copy.sh <abs patch.diff> <check id> [tier]  -- like seedtest.sh, but patches a private copy of /repo
# (VERIF_REPO), so that it can run while other checks use /repo. Evidence/replay files go to a scratch directory
# (VERIF_OUT) that is removed afterwards; the log is kept as /dev/shm/seedlogs/<patch dir>.<check>.log.
p="$1"; id="$2"; tier="${3:-quick}"
rc_dir=/dev/shm/verif-repo-copy-$$
rm -rf $rc_dir; mkdir -p $rc_dir
rsync -a --exclude .git /repo/ $rc_dir/ || exit 2
( cd $rc_dir && git apply "$p" ) || { echo "patch does not apply"; rm -rf $rc_dir; exit 2; }
out_dir=/dev/shm/verif-seed-out-$$; mkdir -p $out_dir /dev/shm/seedlogs
cd /verif && VERIF_OUT=$out_dir VERIF_REPO=$rc_dir ./check "$id" --tier "$tier" > /tmp/seedtest.$$ 2>&1; rc=$?
rm -rf $rc_dir $out_dir
cp /tmp/seedtest.$$ /dev/shm/seedlogs/$(basename $(dirname "$p")).$id.log
grep -c "^VIOLATION" /tmp/seedtest.$$; grep "^VIOLATION" /tmp/seedtest.$$ | head -3 | cut -c1-400; grep -E "HARNESS-ERROR|^C[0-9]+ (quick|thorough):" /tmp/seedtest.$$ | head -3
rm -f /tmp/seedtest.$$
echo "SEEDTEST $id rc=$rc"

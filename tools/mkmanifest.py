#!/opt/veriftools/pyvenv/bin/python
"""Regenerates /verif/MANIFEST.json from the table below and validates it."""
import json, os, sys
import jsonschema
V = os.path.dirname(os.path.dirname(os.path.abspath(__file__)))
props = [json.loads(l) for l in open(os.path.join(V, "properties.jsonl"))]

CHECKS = {}
def check(pid, category, technique, text, note, design_ref, engine):
    CHECKS[pid] = dict(property_id=pid, quick_cmd="./check %s --tier quick" % pid,
                       thorough_cmd="./check %s --tier thorough" % pid,
                       evidence_file="/verif/evidence/%s.json" % pid,
                       replay_cmd_template="./check %s --replay {path}" % pid, engine=engine,
                       level_claimed=dict(category=category, text=text, design_ref=design_ref),
                       level_note=note, technique=technique)

exec(open(os.path.join(V, "tools", "checks_table.py")).read())

NOT_YET = "check not built yet (work in progress; see DESIGN.md section 3)"
m = {"version": 1, "setup_cmd": "./setup.sh",
     "hooks": {"guard": "go build -overlay (no build tag and no change to /repo: all instrumentation lives in /verif/goharness and is mapped into the tooling module with -overlay; a plain go build/go test never sees it)",
               "enable": "lib/build.py: go build -overlay <scratch>/overlay.json -o <scratch>/bin/verifharness ./cmd/verifharness; checks/c20.py: go build -overlay <scratch>/c20ov/overlay.json -o <scratch>/bin/verifwatch ./cmd/verifwatch (instrumented copies of generatecommand.go, cache.go, configargs.go, iocommon are produced from the current sources at build time); gotools/maprange produces the C12 overlay the same way",
               "baseline_off_cmd": "cd /repo/tooling && GOFLAGS=-mod=mod GOPROXY=off go test -vet=off -count=1 ./...",
               "source_commits": [], "add_only": True},
     "engines": ENGINES,
     "checks": [CHECKS[p["id"]] for p in props if p["id"] in CHECKS],
     "not_applicable": [{"property_id": p["id"], "reason": NA.get(p["id"], NOT_YET)} for p in props if p["id"] not in CHECKS],
     "notes": "All checks: ./check <id> --tier quick|thorough; see DESIGN.md. Fix commits in /repo are listed in known_findings.txt (fixed: lines)."}
jsonschema.validate(m, json.load(open("/root/.vp/MANIFEST.schema.json")))
json.dump(m, open(os.path.join(V, "MANIFEST.json"), "w"), indent=1)
print("MANIFEST.json: %d checks, %d not_applicable" % (len(m["checks"]), len(m["not_applicable"])))

#!/usr/bin/env python3
import json, sys
pid = sys.argv[1]; n = sys.argv[2] if len(sys.argv) > 2 else "2"
p = [json.loads(l) for l in open('/verif/properties.jsonl') if json.loads(l)['id'] == pid][0]
wt = "/tmp/wt-%s" % pid
print(f"""You are working in a scratch git worktree of the open-source project microsoft/yardl (a YAML schema-language compiler written in Go that generates C++/Python/MATLAB serialization code) at {wt}. Work ONLY inside {wt}; never read or touch /repo or /verif.

Here is a semantic property that yardl is supposed to satisfy:

  Title: {p['title']}
  Statement: {p['statement']}
  Quantified over: {p['quantifier']['text']}
  Relevant code: {', '.join(p['anchors']['files'])}

Your job is to act as a bug seeder: produce {n} DIFFERENT, independent changes to yardl's source (Go tooling under {wt}/tooling, including the static C++ headers / Python runtime files it ships under tooling/internal/*/include or static_files if relevant) such that each change
  (a) still compiles,
  (b) passes the existing test suite unchanged:  cd {wt}/tooling && GOFLAGS=-mod=mod GOPROXY=off go test -vet=off -count=1 ./...   (no network is available; do NOT set GOSUMDB or GOTOOLCHAIN; the go command auto-selects a cached go1.24 toolchain),
  (c) BREAKS the property above, and
  (d) looks like a realistic slip a developer could make (refactoring mistake, off-by-one, forgotten case, wrong order of two steps, a check moved or weakened, shared state) rather than obvious sabotage, and needs something SPECIFIC to manifest (a particular input shape, an unusual but legal input, a multi-step sequence, a particular ordering, or two cooperating sites that each look fine alone) — not something that ordinary everyday use would expose immediately.

For each change i (1..{n}) deliver a directory {wt}/SEED/{pid}_i/ containing:
  - patch.diff : `git diff` of the source change only (relative to the worktree HEAD; must apply with `git apply` at the repository root),
  - demo.sh    : a self-contained script `demo.sh <repo-root>` that builds yardl from <repo-root>/tooling (go build -o <tmp>/yardl ./cmd/yardl with the env above), creates whatever small package/model/input it needs in a temp dir, and exits 0 when the property holds and non-zero (printing what went wrong) when it is violated. It must FAIL on the tree with your patch applied and PASS on the unpatched tree. Keep it offline and fast (<2 min). If the property concerns generated code, the demo may inspect the generated text, or run generated Python with /opt/veriftools/pyvenv/bin/python (has numpy). Generated C++ can be compiled with g++ -std=c++17 only if it does not need xtensor/HDF5/date headers (these are NOT installed), so prefer text-level or Python-level demonstrations for C++-related changes unless you can make it compile.
  - meta.json  : {{"property": "{pid}", "summary": "...", "needs_to_manifest": "...", "files_changed": [...], "ran": ["commands you ran and their outcome"]}}

Verify everything yourself: apply each patch alone on a clean tree, run the full go test suite (must pass), run demo.sh (must fail); then revert (git checkout -- .) and run demo.sh (must pass). Leave the worktree source clean (reverted) at the end; only the SEED/ directory should remain as untracked files. Do not commit anything. Report back a short summary of each change (what, why it breaks the property, what is needed to trigger it).""")

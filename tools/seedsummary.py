#!/usr/bin/env python3
"""tools/seedsummary.py -- writes seeded/STATUS.md: the latest recorded outcome of every stored change against every check it was run with
(from seeded/RESULTS.tsv), and the changes no recorded run has caught."""
import collections, os
V = os.path.dirname(os.path.dirname(os.path.abspath(__file__)))
latest = collections.OrderedDict()
for l in open(os.path.join(V, "seeded", "RESULTS.tsv")):
    p = l.rstrip("\n").split("\t")
    if len(p) < 7:
        continue
    seed, check, tier, rh, vh, rc, nv = p[:7]
    latest[(seed, check)] = (tier, rh, vh, rc, nv, p[7] if len(p) > 7 else "")
seeds = sorted(d for d in os.listdir(os.path.join(V, "seeded")) if os.path.isdir(os.path.join(V, "seeded", d)))
by = collections.defaultdict(list)
for (seed, check), v in latest.items():
    by[seed].append((check,) + v)
out = ["# Stored changes and the latest recorded run of each (tools/seedreg.py)", "",
       "caught = exit 1 with VIOLATION lines; missed = exit 0; error = harness error / patch no longer applies. Runs before a strengthening",
       "are superseded by later lines for the same (change, check). Changes without any line were last run before RESULTS.tsv existed",
       "(rounds one to five: see DESIGN.md 8.4).", "", "| change | check | outcome | repo head | verif head | first violation |", "|---|---|---|---|---|---|"]
caught_by_some, never = set(), []
for s in seeds:
    for check, tier, rh, vh, rc, nv, fv in by.get(s, []):
        oc = "caught" if rc == "1" and nv != "0" else "missed" if rc == "0" else "error"
        if oc == "caught":
            caught_by_some.add(s)
        out.append("| %s | %s | %s | %s | %s | %s |" % (s, check, oc, rh, vh, fv[:60]))
for s in seeds:
    if s in by and s not in caught_by_some:
        never.append(s)
out += ["", "Recorded runs exist but none caught it: " + (", ".join(never) or "none"), "",
        "No recorded run yet: " + (", ".join(s for s in seeds if s not in by) or "none"), ""]
open(os.path.join(V, "seeded", "STATUS.md"), "w").write("\n".join(out))
print("seeds", len(seeds), "with runs", len([s for s in seeds if s in by]), "caught", len(caught_by_some), "never caught:", never)

#!/opt/veriftools/pyvenv/bin/python
"""tools/onecase.py '<python expr of an AM type using shapes/am constructors>' [k]  -- runs the C03 paths on one shape."""
import sys, os
sys.path.insert(0, os.path.join(os.path.dirname(os.path.dirname(os.path.abspath(__file__))), "lib"))
sys.path.insert(0, os.path.join(os.path.dirname(os.path.dirname(os.path.abspath(__file__))), "checks"))
os.environ["VERIF_PYTRACE"] = "1"
import build, am, shapes, roundtrip, rtengine, evidence
from am import *
import c03
t = eval(sys.argv[1])
k = int(sys.argv[2]) if len(sys.argv) > 2 else 1
packed = shapes.pack([t], "One", with_records=False)
pkg, index = packed[0]
print(am.yaml_model(pkg).split("P0: !protocol")[1])
chk = evidence.Check("C03", "exploration", "quick", "one")
pr = roundtrip.prepare_one(pkg, index, want_cpp=True, want_py=True)
print("gen", pr.gen_rc, pr.gen_err[:500], list(pr.cpp_errors.values())[:1])
eng = rtengine.Engine(chk, pr, k, max_exec=40)
eng.run(paths_binary=c03.BIN, paths_json=c03.JSON + [[("cpp", "b2n", 1), ("cpp", "n2b", 1)]], skip_dates_for=c03.cross_lang_json)
seen = set()
for key, desc, rep in chk.violations:
    if key not in seen:
        seen.add(key)
        print("FAIL", key, "\n   ", desc[:1500], "\n    path", rep["path"])
print("violations", len(chk.violations), "evaluations", chk.evaluations)
pr.close()

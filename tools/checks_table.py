ENGINES = [
 {"name": "goharness", "path": "/verif/goharness", "serves_properties": ["C18"],
  "kind_free_text": "in-process Go harness built into the tooling module with go build -overlay; JSON-lines request/response; panic capture"},
]
NA = {}

check("C18", "model_checking", "explicit enumeration of all import graphs (<=4 packages) x import orders x namespace assignments, executed on the real loader and compared with a reference graph model",
      "Every directed import graph on <=3 (quick) / <=4 (thorough) packages with self-loops, every import-list order (all combinations for <=3 packages; identity + each single-list permutation for 4), every namespace-sharing pair, and the depth family (chains of 9..13 packages with one shortcut edge at every position in both list orders) is written to disk and loaded by the real packaging.LoadPackage + cmd.validatePackage; verdict, set and multiplicity of loaded namespaces and per-namespace content are compared with a reference graph algorithm and across orders. A stride of configurations also goes through the real CLI (yardl generate, model.json).",
      "Bounded: <=4 packages exhaustively, depth family up to 13. Limit semantics pinned to MaxImportRecursionDepth=10. git/https imports not covered (no network). Reference model is ours (lib in checks/c18.py).",
      "DESIGN.md section 3 C18", "goharness")

ENGINES.append({"name": "rtengine", "path": "/verif/lib/rtengine.py", "serves_properties": ["C01", "C02", "C03"],
  "kind_free_text": "bounded exhaustive shape x value enumeration; reference codec (lib/refcodec.py, written from docs/reference) vs generated C++/Python readers and writers driven in-process by generated translator drivers"})

check("C01", "exploration", "bounded exhaustive enumeration of type shapes x value deviations, every execution run through the generated C++ reader/writers and compared with a reference codec",
      "All type shapes with <=1 (quick) / <=2 (thorough) nested constructors over the leaf alphabet, each as step, stream item, record field and generic argument; for each every value with <=1 / <=2 deviations from the default over edge-value domains; each execution is reference-encoded (several block partitions), read by the generated C++ binary reader, re-written by the generated binary writer (CopyTo buffer sizes 1 and 3: single-item and batch paths) and by the NDJSON writer; outputs must decode under the reference decoder to exactly the written values, be the canonical encoding, and match the documented NDJSON mapping.",
      "Reference codec is ours, written from docs/reference/*.md. xtensor and date.h are replaced by stand-ins (verif_ndarray.h via cpp.overrideArrayHeader; date/date.h). std::vector<bool> shapes excluded (C08). Buffer-boundary family: see C16/C03 (to be added here).",
      "DESIGN.md section 3 C01", "rtengine")

check("C02", "exploration", "bounded exhaustive enumeration of type shapes x JSON-representable value deviations through the generated C++ NDJSON writer/reader, compared with the documented mapping and a reference decoder",
      "Same shape/value space as C01 without non-finite floats, with every 2-case union over all JSON-kind representatives (incl. date/time/datetime, enums, flags, generic parameters), 3-case unions over kind representatives, nullable unions, and records/streams whose consecutive items differ in optional presence in both orders. Each execution: reference binary -> generated reader -> NDJSON writer (header + every line compared with the documented mapping) -> NDJSON reader -> binary writer (reference-decoded, must equal what was written) and NDJSON -> NDJSON fixed point, with single-item and batch CopyTo.",
      "Reference mapping is ours, from docs/reference/ndjson.md. Doc-silent spots are not compared: rendering of the null case of a tagged union, tagged-vs-untagged for unions declared over a type parameter, textual date rendering in C++ (date.h stand-in). Optional-of-nullable shapes are excluded (not representable in the documented JSON mapping).",
      "DESIGN.md section 3 C02", "rtengine")
check("C03", "exploration", "bounded exhaustive enumeration of shapes x values pushed through every ordered (writer, reader) pair of {C++, Python} x {binary, NDJSON}, each hop verified against the reference codec",
      "C01/C02 packages generated for both languages; each reference-encoded execution goes through hop paths covering all (language, format) writer/reader pairs; every hop's output is verified (binary: decoded values and canonical bytes, hence byte-identical across languages up to block boundaries and map order; NDJSON: documented mapping). Python copy_to is exercised with stream iterables as-is, wrapped in generators and materialised as lists.",
      "MATLAB cannot be executed (C14 compares its plan statically). Date text is not exchanged between the C++ stand-in and Python. Confirmed Python/C++ defects are packed into quarantine protocols (shapes.quarantine_class) and listed in known_findings.txt by class/language/hop kind.",
      "DESIGN.md section 3 C03", "rtengine")

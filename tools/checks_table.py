ENGINES = [
 {"name": "goharness", "path": "/verif/goharness", "serves_properties": ["C18"],
  "kind_free_text": "in-process Go harness built into the tooling module with go build -overlay; JSON-lines request/response; panic capture"},
]
NA = {}

check("C18", "model_checking", "explicit enumeration of all import graphs (<=4 packages) x import orders x namespace assignments, executed on the real loader and compared with a reference graph model",
      "Every directed import graph on <=3 (quick) / <=4 (thorough) packages with self-loops, every import-list order (all combinations for <=3 packages; identity + each single-list permutation for 4), every namespace-sharing pair, and the depth family (chains of 9..13 packages with one shortcut edge at every position in both list orders) is written to disk and loaded by the real packaging.LoadPackage + cmd.validatePackage; verdict, set and multiplicity of loaded namespaces and per-namespace content are compared with a reference graph algorithm and across orders. A stride of configurations also goes through the real CLI (yardl generate, model.json).",
      "Bounded: <=4 packages exhaustively, depth family up to 13. Limit semantics pinned to MaxImportRecursionDepth=10. git/https imports not covered (no network). Reference model is ours (lib in checks/c18.py).",
      "DESIGN.md section 3 C18", "goharness")

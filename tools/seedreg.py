#!/usr/bin/env python3
"""tools/seedreg.py [-j lanes] [-t tier] seed[:check[,check...]] ...   -- seed regression.
Runs every named seeded change (seeded/<seed>/patch.diff) against the named checks (default: the property's own check)
on a private copy of /repo (tools/seedtest_copy.sh) and appends one line per run to seeded/RESULTS.tsv:
  seed  check  tier  repo-head  verif-head  rc  violations  first-violation-key
rc=1 with violations>0 means "caught"; rc=0 means "missed"; rc=2 is a harness error (patch does not apply, ...)."""
import subprocess, sys, os, re, concurrent.futures as cf, time

def head(d):
    return subprocess.run(["git", "-C", d, "rev-parse", "--short", "HEAD"], capture_output=True, text=True).stdout.strip()

def one(seed, check, tier):
    p = "/verif/seeded/%s/patch.diff" % seed
    t0 = time.time()
    r = subprocess.run(["sh", "/verif/tools/seedtest_copy.sh", p, check, tier], capture_output=True, text=True)
    out = r.stdout + r.stderr
    m = re.search(r"SEEDTEST \S+ rc=(\d+)", out)
    rc = int(m.group(1)) if m else 2
    if "patch does not apply" in out:
        rc = 2
    lines = out.splitlines()
    nv = 0
    for l in lines:
        if l.strip().isdigit():
            nv = int(l.strip()); break
    fv = ""
    for l in lines:
        if l.startswith("VIOLATION"):
            mm = re.search(r"replay=\S*/([^/\s]+)", l)
            fv = mm.group(1)[:80] if mm else l[:80]
            break
    if rc == 2 and not fv:
        fv = ("does-not-apply" if "patch does not apply" in out else
              next((l[:100] for l in lines if "HARNESS-ERROR" in l), "harness-error"))
    return seed, check, tier, rc, nv, fv, int(time.time() - t0)

def main():
    a = sys.argv[1:]; lanes = 2; tier = "quick"
    while a and a[0] in ("-j", "-t"):
        if a[0] == "-j": lanes = int(a[1])
        else: tier = a[1]
        a = a[2:]
    jobs = []
    for s in a:
        seed, _, cs = s.partition(":")
        for c in (cs.split(",") if cs else [seed.split("_")[0]]):
            jobs.append((seed, c, tier))
    rh, vh = head("/repo"), head("/verif")
    with cf.ThreadPoolExecutor(lanes) as ex:
        for f in cf.as_completed([ex.submit(one, *j) for j in jobs]):
            seed, check, tier_, rc, nv, fv, dt = f.result()
            line = "\t".join(map(str, (seed, check, tier_, rh, vh, rc, nv, fv)))
            with open("/verif/seeded/RESULTS.tsv", "a") as o:
                o.write(line + "\n")
            print(("CAUGHT " if rc == 1 and nv > 0 else "MISSED " if rc == 0 else "ERROR  ") + line + "\t%ds" % dt, flush=True)

main()

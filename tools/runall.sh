#!/bin/sh
# tools/runall.sh [tier] [ids...] -- runs checks one after another on /repo, log per check under /dev/shm/runall/
tier="${1:-quick}"; shift
ids="${*:-C01 C02 C03 C04 C05 C06 C07 C08 C09 C10 C11 C12 C13 C14 C15 C16 C17 C18 C19 C20}"
mkdir -p /dev/shm/runall
cd /verif
for id in $ids; do
  s=$(date +%s)
  ./check $id --tier $tier > /dev/shm/runall/$id.$tier.log 2>&1; rc=$?
  e=$(date +%s)
  echo "$id $tier rc=$rc wall=$((e-s))s viol=$(grep -c '^VIOLATION' /dev/shm/runall/$id.$tier.log) kf=$(grep -c '^KNOWN-FINDING' /dev/shm/runall/$id.$tier.log)" | tee -a /dev/shm/runall/summary.txt
done

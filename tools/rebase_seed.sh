#!/bin/sh
# tools/rebase_seed.sh <seed>  -- re-applies a stored change whose context lines moved (patch with fuzz) on a scratch worktree of
# /repo's HEAD, re-confirms it (go tests pass, demo fails with / passes without) and stores the refreshed patch.diff.
s="$1"; d=/dev/shm/rebase-$s
git -C /repo worktree add --detach $d HEAD -q || exit 2
cd $d && patch -p1 -F3 < /verif/seeded/$s/patch.diff >/dev/null || { echo "REBASE $s: patch does not apply even with fuzz"; cd /; git -C /repo worktree remove --force $d; exit 1; }
find . -name '*.orig' -delete; git diff > /dev/shm/$s.rebased.diff; git checkout -q -- .
cp /dev/shm/$s.rebased.diff /dev/shm/$s.try && mkdir -p /dev/shm/rb-$s && cp /verif/seeded/$s/* /dev/shm/rb-$s/ && cp /dev/shm/$s.rebased.diff /dev/shm/rb-$s/patch.diff
r=$(sh /verif/tools/confirm_seed.sh $d /dev/shm/rb-$s 2>&1 | tail -2)
echo "$r"
if echo "$r" | grep -q "CONFIRM: OK"; then cp /dev/shm/$s.rebased.diff /verif/seeded/$s/patch.diff; echo "REBASE $s: stored"; fi
cd /; git -C /repo worktree remove --force $d; rm -rf /dev/shm/rb-$s /dev/shm/$s.rebased.diff /dev/shm/$s.try

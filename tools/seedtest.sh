#!/bin/sh
# tools/seedtest.sh <patch.diff> <check id> [tier]  -- applies the patch to /repo, runs the check, reverts.
p="$1"; id="$2"; tier="${3:-quick}"
git -C /repo diff --quiet || { echo "/repo not clean"; exit 2; }
git -C /repo apply "$p" || exit 2
cd /verif && ./check "$id" --tier "$tier" > /tmp/seedtest.$$ 2>&1; rc=$?
git -C /repo checkout -- . ; git -C /repo clean -fdq tooling >/dev/null 2>&1
grep -c "^VIOLATION" /tmp/seedtest.$$; grep "^VIOLATION" /tmp/seedtest.$$ | head -3 | cut -c1-400; grep -E "HARNESS-ERROR|^C[0-9]+ (quick|thorough):" /tmp/seedtest.$$ | head -3
rm -f /tmp/seedtest.$$
echo "SEEDTEST $id rc=$rc"

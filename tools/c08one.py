#!/opt/veriftools/pyvenv/bin/python
"""tools/c08one.py <role> <word>...  -- evaluates one C08 role package and prints the failures."""
import sys, os
sys.path.insert(0, os.path.join(os.path.dirname(os.path.dirname(os.path.abspath(__file__))), "lib"))
sys.path.insert(0, os.path.join(os.path.dirname(os.path.dirname(os.path.abspath(__file__))), "checks"))
import build, c08, evidence
build.yardl_bin(); c08.inc_dir()
chk = evidence.Check("C08", "x", "quick", "dbg")
ex = c08.Explorer(chk, "dbg")
role = sys.argv[1]; words = sys.argv[2:]
if role in c08.NS_ROLES:
    r = c08.evaluate(ex.wd(), c08.ns_package(role, words))
else:
    r = ex.run([(role, w) for w in words])
print("accepted", r["accepted"], r.get("stderr", "")[:300])
for f in r["fails"]:
    print(f[0], f[1], f[2][:700])

#!/usr/bin/env python3
import json,glob,collections,re,sys
seen=collections.Counter(); ex={}
for f in sorted(glob.glob('/verif/replay/%s/*.json' % sys.argv[1])):
    d=json.load(open(f))
    k=d['key']; m=d['description']
    mm=re.search(r'@step=\d+ (\w+: [^(]{0,60})',m)
    parts=k.split('/')
    kk='/'.join(parts[0:5] if parts[0]=='quarantine' else parts[0:3])+' :: '+(mm.group(1) if mm else re.sub(r'[0-9]+','N',m[:40]))
    seen[kk]+=1
    ex.setdefault(kk,[])
    if len(ex[kk])<3: ex[kk].append(parts[-1][:50])
for k,v in sorted(seen.items())[:int(sys.argv[2]) if len(sys.argv)>2 else 60]:
    print(v,k[:170], ex[k])

#!/bin/sh
# tools/confirm_seed.sh <worktree> <seed dir>   -- confirms: patch applies, go tests pass, demo fails with patch, passes without
wt="$1"; sd="$2"
cd "$wt" || exit 2
git checkout -q -- . || exit 2
git apply "$sd/patch.diff" || { echo "CONFIRM: patch does not apply"; exit 1; }
( cd tooling && GOFLAGS=-mod=mod GOPROXY=off go build ./... && GOFLAGS=-mod=mod GOPROXY=off go test -vet=off -count=1 ./... >/tmp/confirm_gotest.$$ 2>&1 ) ; t=$?
grep -c "^ok" /tmp/confirm_gotest.$$; grep -E "^(FAIL|---)" /tmp/confirm_gotest.$$ | head; rm -f /tmp/confirm_gotest.$$
bash "$sd/demo.sh" "$wt" >/tmp/confirm_demo.$$ 2>&1; d1=$?
git checkout -q -- .
bash "$sd/demo.sh" "$wt" >/tmp/confirm_demo2.$$ 2>&1; d2=$?
tail -3 /tmp/confirm_demo.$$; rm -f /tmp/confirm_demo.$$ /tmp/confirm_demo2.$$
echo "CONFIRM: gotest_rc=$t demo_with_patch_rc=$d1 demo_clean_rc=$d2"
[ $t -eq 0 ] && [ $d1 -ne 0 ] && [ $d2 -eq 0 ] && echo "CONFIRM: OK"

"""C03 Streams are portable across target languages (C++, Python) and formats (binary, NDJSON)."""
import build, shapes, roundtrip, rtengine
from am import N, P
from evidence import Check

RULE = ("C01/C02 packages generated for C++ and Python; every execution is reference-encoded and pushed through paths of hops "
        "(language, reader format -> writer format) covering all ordered (writer, reader) pairs among {C++,Python} x {binary,NDJSON}; "
        "the output of every hop is verified against the reference codec (binary: decoded values + canonical bytes, i.e. byte-identical "
        "across languages up to block boundaries and map order; NDJSON: documented mapping). Python copy_to is also run with stream "
        "iterables passed as generators and as lists; non-trivial = distinct (step, non-default value)")

BIN = [[("py", "b2b", 1)], [("py", "b2b", 2)], [("py", "b2b", 3), ("cpp", "b2b", 3)], [("cpp", "b2b", 1), ("py", "b2b", 1)]]
JSON = [[("py", "b2n", 1), ("py", "n2b", 1)],
        [("py", "b2n", 1), ("cpp", "n2b", 1)],
        [("cpp", "b2n", 1), ("py", "n2b", 1)],
        [("py", "b2n", 3), ("cpp", "n2n", 1), ("py", "n2n", 1), ("cpp", "n2b", 1)]]


def cross_lang_json(path):
    langs = {l for l, m, _ in path if "n" in m}
    return len(langs) > 1


PY_ONLY = "Pyo"     # shapes whose generated C++ does not compile (known finding of C08: map keys without std::hash): Python hops only


def py_only_shapes():
    from am import P, N, Map, Vec, Opt
    out = []
    for k in ("date", "time", "datetime", "complexfloat32", "complexfloat64"):   # float keys: the value generator offers 0.0 and -0.0, which are one key
        out += [Map(P(k), P("int32")), Map(P(k), N("RS")), Vec(Map(P(k), P("string"))), Opt(Map(P(k), P("bool")))]
    return out


def worker(chk, pkg, index):
    tier = chk.tier
    k = 1 if tier == "quick" else 2
    py_only = pkg.namespace.startswith(PY_ONLY)
    pr = roundtrip.prepare_one(pkg, index, want_cpp=not py_only, want_py=True)
    try:
        if pr.gen_rc != 0:
            raise build.HarnessError("yardl rejected a packed package %s: %s" % (pkg.namespace, pr.gen_err[-600:]))
        if py_only:
            eng = rtengine.Engine(chk, pr, 2, max_exec=8 if tier == "quick" else 30, cap=40 if tier == "quick" else 300)
            eng.run(paths_binary=[[("py", "b2b", 1)], [("py", "b2b", 3)]],
                    paths_json=[[("py", "b2n", 1), ("py", "n2b", 1)], [("py", "b2n", 3), ("py", "n2n", 1), ("py", "n2b", 1)]])
            chk.extra["packages"] = 1
            chk.extra["protocols"] = len(pr.steps)
            return
        if pr.cpp is None:
            first = list(pr.cpp_errors.values())[0]
            chk.fail("cpp-does-not-compile/%s" % pkg.namespace, "generated C++ of an accepted package does not compile: %s" % first[:500],
                     {"namespace": pkg.namespace, "errors": {k: v[:2000] for k, v in pr.cpp_errors.items()}})
            return
        eng = rtengine.Engine(chk, pr, k, max_exec=8 if tier == "quick" else 30, cap=40 if tier == "quick" else 300)
        eng.run(paths_binary=BIN, paths_json=JSON, skip_dates_for=cross_lang_json)
        if pkg.namespace.startswith("Buf"):
            eng.run_custom(rtengine.buffer_executions(pr, quick=(tier == "quick")), [[("py", "b2b", 1)], [("py", "b2b", 3), ("cpp", "b2b", 7)], [("cpp", "b2b", 1), ("py", "b2b", 2)], [("py", "b2n", 3), ("py", "n2b", 1)]])
            chk.extra["packages"] = 1
            chk.extra["protocols"] = len(pr.steps)
            return
        if pkg.namespace.startswith("Vib"):
            eng.run_custom(shapes.varint_executions(pkg), [[("py", "b2b", 1)], [("py", "b2b", 3), ("cpp", "b2b", 7)], [("cpp", "b2b", 1), ("py", "b2b", 2)], [("py", "b2n", 3), ("py", "n2b", 1)], [("cpp", "b2n", 1), ("py", "n2b", 1)]])
        if pkg.namespace.startswith("Pat"):
            pats = [p.name[1:].upper() for p in pkg.protocols]
            eng.run_custom({"Q" + pt.lower(): shapes.pattern_executions(pt) for pt in pats}, BIN + JSON)
        chk.extra["packages"] = 1
        chk.extra["protocols"] = len(pr.steps)
    finally:
        pr.close()


def main(tier):
    chk = Check("C03", "exploration", tier, RULE)
    d = 1 if tier == "quick" else 2
    sh = [s for s in shapes.shapes(d, tier) if not shapes.has_vector_of_bool(s)]
    if tier == "quick":
        must = set(shapes.fixed_item_arrays()) | set(shapes.optional_item_arrays())
        sh = [x for i, x in enumerate(sh) if i % 2 == 0 or x in must]
    packed = shapes.pack(sh, "Pk")
    packed.append((shapes.pattern_package(4 if tier == "quick" else 5)[0], []))
    packed.append((shapes.buffer_package()[0], []))
    packed.append((shapes.bigschema_package(), []))
    packed.append((shapes.varint_package(), []))
    packed += shapes.pack(py_only_shapes(), PY_ONLY)
    packed += shapes.pack([N("GK", P("string")), N("GK", P("int32")), N("GK", P("uint8"))], "Gkm")
    chk.extra.update({"shapes": len(sh), "depth": d, "k": 1 if tier == "quick" else 2})
    roundtrip.run_packages(chk, packed, worker)
    chk.assumptions += ["MATLAB generated code cannot be executed here (its serialization plan is compared statically under C14)",
                        "date/time text is not exchanged between C++ and Python NDJSON (C++ rendering comes from the date.h stand-in); binary exchange covers dates",
                        "arrays in C++ use the stand-in verif_ndarray.h"]
    return chk.finish()

"""C16 A truncated stream is reported, never mistaken for a complete one.

Every crash point: for each protocol of a compact package covering every codec path, one valid stream is cut at every byte
position 0..n-1 (binary and NDJSON) and read by the generated C++ reader (AddressSanitizer build, assertions on) and the
generated Python reader; plus the 64 KiB boundary family (streams positioned so that a value straddles the staging-buffer
boundary, cut at every position around it). The reader must raise, must not crash/hang, and every value it delivered before
the error (observed through an NDJSON writer, which emits one line per value immediately) must equal the value written at
that position."""
import json, os
from build import Pool

import am, build, cppdrv, refcodec, roundtrip, rtengine, shapes, values
from am import P, N, Stream, Protocol, Package
from evidence import Check


def package():
    bufpkg, types, longs = shapes.buffer_package("Trn")
    protos = [p for p in bufpkg.protocols if p.name.startswith("B") or p.name in ("Llf64", "Llvf32", "Llrt3", "Llna", "Llstr")]
    patpkg, pats = shapes.pattern_package(3, "Trn")
    protos += patpkg.protocols
    return Package("Trn", defs=bufpkg.defs, protocols=protos, dirname="trn")


_S = {}


def init_worker(info):
    _S.update(info)
    _S["cpp"] = cppdrv.Driver(info["exe"])
    _S["py"] = cppdrv.Driver(build.PY, args=[os.path.join(build.VERIF, "lib", "pydrv_main.py"), info["pydir"], info["pymod"]])


def delivered_ok(steps, vals, out_text, lang):
    """Lines delivered before the error must be a prefix of the reference lines (header first)."""
    lines = [l for l in out_text.split("\n")]
    complete = lines[:-1]          # the last element is "" or a partial line
    want = [None]
    for (name, t), v in zip(steps, vals):
        if t[0] == "stream":
            want += [{name: rtengine.ref_json(t[1], x)} for x in v]
        else:
            want.append({name: rtengine.ref_json(t, v)})
    if len(complete) > len(want):
        return False, "more lines delivered (%d) than values written (%d)" % (len(complete) - 1, len(want) - 1), len(complete)
    for i, l in enumerate(complete):
        try:
            j = json.loads(l)
        except Exception:
            return False, "delivered line %d is not JSON" % i, len(complete)
        if i == 0:
            continue
        if not rtengine.jeq(want[i], j, strict_dates=(lang == "py")):
            return False, "delivered value %d differs: wrote %s, reader delivered %s" % (i, rtengine.jdump(want[i]), json.dumps(j)[:200]), len(complete)
    return True, "", len(complete)


def run_job(job):
    """job = (P, steps, vals, parts, fmt, cuts, label) -> list of failures, counts"""
    Pn, steps, vals, parts, fmt, cuts, label = job
    schema = _S["schemas"][Pn]
    data = refcodec.encode_protocol(steps, vals, schema, parts)
    if fmt == "n":
        st, out, msg = _S["cpp"].call(Pn, "b2n", data, 1)
        if st != "OK":
            return [("harness", "cannot produce the NDJSON form of %s: %s %s" % (Pn, st, msg), None)], {}
        data = out
    fails, counts = [], {}
    nvals = 1 + sum(len(v) if t[0] == "stream" else 1 for (_, t), v in zip(steps, vals))
    for lang in ("cpp", "py"):
        drv = _S[lang]
        for cut in cuts:
            if cut >= len(data):
                continue
            st, out, msg = drv.call(Pn, "b2n" if fmt == "b" else "n2n", data[:cut], 1, timeout=60)
            counts[(lang, fmt, st)] = counts.get((lang, fmt, st), 0) + 1
            where = {"protocol": Pn, "format": "binary" if fmt == "b" else "ndjson", "lang": lang, "cut": cut, "length": len(data), "family": label,
                     "model": am.yaml_def([p for p in _S["pkg"].protocols if p.name == Pn][0]), "values": repr(vals)[:1500],
                     "input_hex": data[:cut].hex() if cut < 3000 else None}
            if st == "OK":
                cls = "completed-normally"
                if fmt == "n":
                    # classify the cut: at a line boundary with only stream steps (or nothing) left to read?
                    # a cut that removes only the newline of a complete line is the same situation
                    at_boundary = data[:cut].endswith(b"\n") or data[cut:cut + 1] == b"\n"
                    if not data[:cut].endswith(b"\n") and data[cut:cut + 1] == b"\n":
                        data_for_count = data[:cut] + b"\n"
                    else:
                        data_for_count = data[:cut]
                    lines_before = data_for_count.count(b"\n")
                    # index of the step the next missing line belongs to
                    idx, k = 0, lines_before - 1
                    for (sn, t), v in zip(steps, vals):
                        n_lines = len(v) if t[0] == "stream" else 1
                        if k < n_lines:
                            break
                        k -= n_lines
                        idx += 1
                    rest_streams = all(t[0] == "stream" for _, t in steps[idx:]) if lines_before >= 1 else False
                    if at_boundary and rest_streams:
                        cls = "completed-normally/ndjson-cut-at-line-boundary-only-streams-remain"
                fails.append(("%s/%s/%s" % (lang, "binary" if fmt == "b" else "ndjson", cls),
                              "%s %s stream of %s cut at byte %d of %d was read to completion without an error" % (lang, "binary" if fmt == "b" else "NDJSON", Pn, cut, len(data)), where))
                continue
            if st in ("DIED", "HANG"):
                fails.append(("%s/%s/%s" % (lang, "binary" if fmt == "b" else "ndjson", "crash" if st == "DIED" else "hang"),
                              "%s reader %s on %s cut at byte %d of %d (%s): %s" % (lang, st, Pn, cut, len(data), label, msg[-400:]), where))
                continue
            ok, why, n = delivered_ok(steps, vals, out.decode("utf-8", errors="replace"), lang)
            if not ok:
                fails.append(("%s/%s/wrong-value-before-error" % (lang, "binary" if fmt == "b" else "ndjson"),
                              "%s reader of %s cut at byte %d of %d: %s" % (lang, Pn, cut, len(data), why), where))
    return fails, counts


def main(tier):
    quick = tier == "quick"
    chk = Check("C16", "fault_enumeration", tier,
                "one valid stream per protocol of a compact package (every codec path as step, stream item and after a stream; all step "
                "patterns over {scalar, int stream, record stream} up to length 3) cut at every byte position, binary and NDJSON, read by the "
                "generated C++ (ASan, assertions on) and Python readers through an NDJSON writer; plus streams positioned so that each "
                "value's first byte lies at every offset around 65536 (and 131072 in thorough), cut at every position in [boundary-24, "
                "boundary+24]; non-trivial = cuts that fall strictly inside the stream body (after the header)")
    pkg = package()
    pr = roundtrip.prepare_one(pkg, [], want_cpp=True, want_py=True, flags=("-O1", "-g0", "-fsanitize=address"))
    if pr.gen_rc != 0:
        raise build.HarnessError("yardl rejected the C16 package: " + pr.gen_err[-500:])
    if pr.cpp is None:
        raise build.HarnessError("C16 driver does not compile: " + list(pr.cpp_errors.values())[0][:800])
    exe = pr.cpp.exe
    pr.close()
    jobs = []
    for Pn, steps in pr.steps.items():
        if Pn.startswith("B"):
            t = steps[1][1]
            vs = values.values(t, 2, json_safe=True)
            v = next((x for x in vs if 2 <= len(refcodec.encode(t, x)) <= 64), vs[0])
            vals, parts = ["xy", v, [v, vs[0], v], 5], {2: [1, 2]}
        else:
            if Pn.startswith("L"):
                continue
            pat = Pn[1:].upper()
            ex = shapes.pattern_executions(pat)
            vals, parts = ex[-1]      # all streams with 3 items in blocks [1, 2]
        data = refcodec.encode_protocol(steps, vals, pr.schemas[Pn], parts)
        n = len(data)
        hdr = len(refcodec.header(pr.schemas[Pn]))
        cuts = list(range(0, n)) if not quick else sorted(set(list(range(0, min(hdr, 30))) + list(range(hdr - 6, n))))
        for c in cuts:
            if c >= hdr:
                chk.nontriv((Pn, "b", c))
        jobs.append((Pn, steps, vals, parts, "b", cuts, "every-prefix"))
        # NDJSON: every cut after the header line (the header alone is ~1 kB of schema text: every 7th position there)
        jobs.append((Pn, steps, vals, parts, "n", None, "every-prefix"))
    # large contiguous payloads (vectors / arrays of > 128 KiB that readers may fetch in one direct read): coarse cut grid,
    # every position around each 64 KiB multiple and the last 48 positions
    for Pn, steps in pr.steps.items():
        if not Pn.startswith("L"):
            continue
        t = steps[0][1]
        vs = values.values(t, 1, json_safe=True)
        b = vs[min(2, len(vs) - 1)]
        per = max(1, len(refcodec.encode(t, b)))
        nbig = min(40000, (3 * rtengine.BUF) // per + 11)
        vals, parts = [b, [b] * 40, [b] * nbig, 9], {1: [40]}
        data = refcodec.encode_protocol(steps, vals, pr.schemas[Pn], parts)
        n = len(data)
        cuts = set(range(0, n, 4099 if quick else 509)) | set(range(max(0, n - 48), n))
        for m in range(1, n // rtengine.BUF + 1):
            cuts |= set(range(m * rtengine.BUF - 6, m * rtengine.BUF + 7))
        cuts = sorted(c for c in cuts if 0 <= c < n)
        jobs.append((Pn, steps, vals, parts, "b", cuts, "large-payload"))
        for c in cuts:
            chk.nontriv((Pn, "lp", c))
    # boundary family
    bex = rtengine.buffer_executions(pr, quick=quick)
    for Pn, execs in bex.items():
        if not Pn.startswith("B"):
            continue
        steps = pr.steps[Pn]
        sel = execs if not quick else execs[::3]
        for vals, parts in sel:
            for m in (1,) if quick else (1, 2):
                b = rtengine.BUF * m
                cuts = list(range(b - 24, b + 25)) if not quick else list(range(b - 12, b + 13))
                jobs.append((Pn, steps, vals, parts, "b", cuts, "buffer-boundary"))
                for c in cuts:
                    chk.nontriv((Pn, "bb", c, len(vals[0])))
    info = {"exe": exe, "pydir": pr.pydir, "pymod": pr.pymod, "schemas": pr.schemas, "pkg": pkg}
    # NDJSON cut lists need the NDJSON text: computed inside the worker; give "all" marker
    with Pool(build.NCPU, initializer=init_worker, initargs=(info,)) as pool:
        # resolve NDJSON cut lists first (cheap): encode via one driver in the parent
        d0 = cppdrv.Driver(exe)
        fixed = []
        for job in jobs:
            if job[5] is None:
                data = refcodec.encode_protocol(job[1], job[2], pr.schemas[job[0]], job[3])
                st, out, msg = d0.call(job[0], "b2n", data, 1)
                if st != "OK":
                    raise build.HarnessError("cannot produce NDJSON for %s: %s %s" % (job[0], st, msg))
                hl = out.index(b"\n") + 1
                cuts = sorted(set(list(range(0, hl, 7 if quick else 1)) + list(range(hl - 3, len(out)))))
                for c in cuts:
                    if c >= hl:
                        chk.nontriv((job[0], "n", c))
                job = job[:5] + (cuts,) + job[6:]
            fixed.append(job)
        d0.close()
        # split long cut lists so that the pool is balanced
        split = []
        for job in fixed:
            cuts = job[5]
            for i in range(0, len(cuts), 150):
                split.append(job[:5] + (cuts[i:i + 150],) + job[6:])
        for fails, counts in pool.imap_unordered(run_job, split, chunksize=1):
            for (lang, fmt, st), n in counts.items():
                chk.count(n)
                chk.outcome((lang, fmt, st))
                chk.extra["%s_%s_%s" % (lang, fmt, st)] = chk.extra.get("%s_%s_%s" % (lang, fmt, st), 0) + n
            for key, desc, where in fails:
                if key == "harness":
                    raise build.HarnessError(desc)
                chk.fail(key + "/" + where["protocol"], desc, where)
    chk.sample({"protocols": len(pr.steps), "jobs": len(split), "example": {"protocol": "Bi32", "cuts": "0..n-1", "formats": ["binary", "ndjson"], "langs": ["cpp", "py"]}})
    chk.assumptions += ["delivered values are observed through the generated NDJSON writer (one line per value, written immediately); the binary writer buffers and cannot show them",
                        "C++ driver built with -fsanitize=address and assertions enabled: an abort or sanitizer report is a crash outcome",
                        "hang classifier: 60 s per cut (typical cut takes < 1 ms)"]
    return chk.finish()

"""C08 Every accepted package yields well-formed code for every target and option set.
Bounded exhaustive exploration of (name x role), (name pair x scope), (option combination x model) and (`yardl init` name):
the real `yardl generate` is run on each package; generated C++ is compiled with `g++ -std=c++17 -fsyntax-only`, generated
Python is byte-compiled, imported and scanned for duplicate definitions, generated MATLAB is scanned for duplicate / reserved
definitions, the JSON output must parse.
 A  words x roles      candidate words = target-language keywords and standard macros + every identifier that occurs in the code
                       generated for a baseline model (and, thorough tier, in the static runtime files), mapped back to model
                       spellings (camelCase of snake_case, every CamelCase suffix, first letter lowered/raised); each word is
                       placed in every role it is a legal name for (field, computed field, enum/flags value, union tag, step,
                       stream step, switch variable, array dimension; record/enum/flags/alias/union/protocol/generic type name,
                       generic parameter; namespace, imported namespace) next to the baseline declarations
 B  name pairs x scope every legal name up to a length bound over a small alphabet, all in the same scope (fields of one record,
                       values of one enum, ...), i.e. every pair of distinct short names; the harness' view of the real
                       identifier functions predicts the collision classes, generation + compilation decides
 C  options            {cpp,python,matlab,json subsets} x {generateNDJson, generateHDF5, generateCMakeLists, overrideArrayHeader,
                       python.generateNDJson} x {yaml, -c override} x model shapes (baseline, types only, protocols only, imports)
 D  init               `yardl init <name>` for every name up to a length bound over an alphabet + special words, then generate
"""
import ast, itertools, json, os, re, shutil, subprocess, sys
from concurrent.futures import ThreadPoolExecutor
import build
from evidence import Check
SHIMS = os.path.join(build.VERIF, "shims", "cpp")
SHIMS_H5 = os.path.join(build.VERIF, "shims", "cpp_h5")
BASE_MODEL = """\
Rq: !record
  fields:
    fq: int
    gq: string?
    hq: [int, float, Eq]
    vq: int*
    aq: float[2,3]
    nq: double[]
    mq: string->int
    dq: date
%(rq_fields)s  computedFields:
    cq: fq + 1
    sq:
      !switch hq:
        int iq: iq
        float: 2
        Eq: 3
    zq: size(aq, 0)
%(rq_computed)sEq: !enum
  values: [xq, yq%(eq_values)s]
Lq: !flags
  values: [oq, pq%(lq_values)s]
Uq: !union
  tq: int
  wq: string
Aq: Rq
Gq<Tq>: !record
  fields:
    kq: Tq
    lq: Tq[]
Pq: !protocol
  sequence:
    jq: Rq
    bq: !stream
      items: int
    eq: Eq
    uq: Uq
    rq: Gq<int>
    ll: Lq
    al: Aq
%(pq_steps)s"""
MEMBER_RE = re.compile(r"^[a-z][a-zA-Z0-9]{0,63}$")
TYPE_RE = re.compile(r"^[A-Z][a-zA-Z0-9]{0,63}$")
CPP_KEYWORDS = """alignas alignof and and_eq asm auto bitand bitor bool break case catch char char8_t char16_t char32_t class compl
concept const consteval constexpr constinit const_cast continue co_await co_return co_yield decltype default delete do double
dynamic_cast else enum explicit export extern false float for friend goto if inline int long mutable namespace new noexcept not
not_eq nullptr operator or or_eq private protected public register reinterpret_cast requires return short signed sizeof static
static_assert static_cast struct switch template this thread_local throw true try typedef typeid typename union unsigned using
virtual void volatile wchar_t while xor xor_eq final override import module""".split()
CPP_MACROS = """NULL EOF NAN INFINITY errno stdin stdout stderr assert EDOM ERANGE EILSEQ EINTR EINVAL BUFSIZ HUGE_VAL INT_MAX
CHAR_BIT SIGINT SIGABRT linux unix i386 major minor TRUE FALSE offsetof va_start va_arg va_end va_list setjmp NDEBUG RAND_MAX
FILE DOMAIN OVERFLOW UNDERFLOW isnan isinf signbit fpclassify min max M_PI WCHAR_MAX SIZE_MAX INT8_C complex I""".split()
PY_KEYWORDS = """False None True and as assert async await break class continue def del elif else except finally for from global
if import in is lambda nonlocal not or pass raise return try while with yield match case type print exec self cls bool int float
complex str bytes list dict set tuple object property len id map filter range super isinstance np numpy yardl typing datetime
dataclasses enum abc collections types io sys os dtype Any Optional Union Generic TypeVar Enum IntFlag IntEnum T Protocol
__init__ __class__ name value""".split()
YAML_WORDS = "null Null NULL true True false False yes Yes no No on On off Off y n".split()
MATLAB_KEYWORDS = """break case catch classdef continue else elseif end for function global if otherwise parfor persistent return
spmd switch try while properties methods events enumeration arguments self obj varargin nargin isa class double single int32
struct cell disp size numel length eq ne isequal horzcat vertcat subsref subsasgn yardl""".split()

def camel(s):
    """snake_case / UPPER_SNAKE / mixed -> camelCase candidates' base: parts joined with capitals."""
    parts = [p for p in re.split(r"_+", s) if p]
    if not parts:
        return ""
    if len(parts) == 1:
        return parts[0]
    return parts[0] + "".join(p[:1].upper() + p[1:] for p in parts[1:])

def suffixes(s):
    """Every suffix of a CamelCase identifier that starts at a word boundary (WriteSqImpl -> WriteSqImpl, SqImpl, Impl)."""
    idx = [0] + [m.start() for m in re.finditer(r"(?<=[a-z0-9])[A-Z]|(?<=[A-Z])[A-Z](?=[a-z])", s)]
    return [s[i:] for i in idx]

def spellings(tok, with_suffixes=True):
    """Model spellings whose derived identifiers can equal tok."""
    out = set()
    forms = {tok, tok.rstrip("_"), tok.lstrip("_")}
    for f in list(forms):
        forms.add(camel(f))
        forms.add(camel(f.lower()))
        if re.match(r"^k[A-Z]", f):
            forms.add(f[1:])
    for f in forms:
        if not f or not re.match(r"^[A-Za-z][A-Za-z0-9]*$", f):
            continue
        for s in (suffixes(f) if with_suffixes else [f]):
            out.add(s[:1].lower() + s[1:])
            out.add(s[:1].upper() + s[1:])
    return out

# ------------------------------------------------------------------------------------------------------------------ packages
def manifest(ns, cfg, imports=(), versions=()):
    t = cfg.get("targets", ("cpp", "python", "matlab", "json"))
    out = ["namespace: %s" % ns]
    if imports:
        out.append("imports:")
        out += ["  - %s" % i for i in imports]
    if versions:
        out.append("versions:")
        out += ["  %s: %s" % v for v in versions]
    if "cpp" in t:
        out.append("cpp:\n  sourcesOutputDir: ../out/cpp")
        for k, y in (("ndjson", "generateNDJson"), ("hdf5", "generateHDF5"), ("cmake", "generateCMakeLists")):
            if k in cfg and not cfg.get("via_cli"):
                out.append("  %s: %s" % (y, "true" if cfg[k] else "false"))
        if cfg.get("override", True) and not cfg.get("via_cli"):
            out.append("  overrideArrayHeader: verif_ndarray.h")
    if "python" in t:
        out.append("python:\n  outputDir: ../out/py")
        if "pyndjson" in cfg and not cfg.get("via_cli"):
            out.append("  generateNDJson: %s" % ("true" if cfg["pyndjson"] else "false"))
    if "matlab" in t:
        out.append("matlab:\n  outputDir: ../out/matlab")
    if "json" in t:
        out.append("json:\n  outputDir: ../out/json")
    return "\n".join(out) + "\n"

def cli_overrides(cfg):
    if not cfg.get("via_cli"):
        return []
    out = []
    t = cfg.get("targets", ("cpp", "python", "matlab", "json"))
    if "cpp" in t:
        for k, y in (("ndjson", "generateNDJson"), ("hdf5", "generateHDF5"), ("cmake", "generateCMakeLists")):
            if k in cfg:
                out += ["-c", "cpp.%s=%s" % (y, "true" if cfg[k] else "false")]
        if cfg.get("override", True):
            out += ["-c", "cpp.overrideArrayHeader=verif_ndarray.h"]
    if "python" in t and "pyndjson" in cfg:
        out += ["-c", "python.generateNDJson=%s" % ("true" if cfg["pyndjson"] else "false")]
    return out

DEFAULT_CFG = {"ndjson": True, "hdf5": True, "cmake": False, "override": True, "pyndjson": True}
_inc = None

def inc_dir():
    global _inc
    if _inc is None:
        import cppdrv
        _inc = cppdrv.inc_dir()
    return _inc

def py_dups(path):
    """Duplicate definitions inside one class body or module / duplicate parameters (a later one silently replaces the earlier)."""
    out = []
    try:
        tree = ast.parse(open(path).read(), path)
    except SyntaxError as e:
        return ["syntax error: %s line %s" % (e.msg, e.lineno)]
    def scan(body, where):
        seen = {}
        for st in body:
            names = []
            if isinstance(st, (ast.FunctionDef, ast.AsyncFunctionDef)):
                decos = [ast.unparse(d) for d in st.decorator_list]
                if any(d.endswith(".setter") or d.endswith("overload") or d.endswith(".deleter") for d in decos):
                    continue
                names = [st.name]
            elif isinstance(st, ast.ClassDef):
                names = [st.name]
                scan(st.body, where + "." + st.name)
            elif isinstance(st, ast.AnnAssign) and isinstance(st.target, ast.Name):
                names = [st.target.id]
            elif isinstance(st, ast.Assign):
                names = [t.id for t in st.targets if isinstance(t, ast.Name)]
            for n in names:
                if n in seen and n not in ("_", "__all__"):
                    out.append("%s: '%s' defined twice (lines %d and %d)" % (where, n, seen[n], st.lineno))
                seen[n] = st.lineno
    scan(tree.body, os.path.basename(path))
    return out

MATLAB_RESERVED = set("break case catch classdef continue else elseif end for function global if otherwise parfor persistent return spmd switch try while".split())

def matlab_lint(root):
    """Own lint of generated MATLAB (no MATLAB/Octave in the sandbox): classdef name == file name, definitions inside a
    classdef (properties, methods, enumeration members) unique and not reserved words, function parameters not reserved."""
    out = []
    lower_seen = {}
    for dp, dn, fn in os.walk(root):
        if "+yardl" in dp.split(os.sep):
            continue
        for d in dn:
            if d.startswith("+") and d[1:] in MATLAB_RESERVED:
                out.append("package directory %s is named by a reserved word" % d)
        for f in fn:
            if not f.endswith(".m"):
                continue
            p = os.path.join(dp, f)
            base = f[:-2]
            if base in MATLAB_RESERVED:
                out.append("%s: file name is a reserved word" % f)
            txt = open(p).read()
            m = re.search(r"^classdef\s+(?:\([^)]*\)\s*)?(\w+)", txt, re.M)
            if m and m.group(1) != base:
                out.append("%s: classdef %s in a file of a different name" % (f, m.group(1)))
            fm = re.match(r"\s*(?:%[^\n]*\n\s*)*function\s+(?:[^=\n]*=\s*)?(\w+)", txt)
            if not m and fm and fm.group(1) != base:
                out.append("%s: function %s in a file of a different name" % (f, fm.group(1)))
            section = None
            defs = {}
            depth = 0
            for ln, line in enumerate(txt.split("\n"), 1):
                s = line.strip()
                if s.startswith("%") or not s:
                    continue
                ms = re.match(r"^(properties|methods|enumeration|events)\s*(\([^)]*\))?\s*$", s)
                if ms and line.startswith("  ") and not line.startswith("    "):
                    section = ms.group(1)
                    continue
                if section == "properties":
                    mp = re.match(r"^(\w+)\s*(?:$|=|;|\(|%|[A-Za-z{])", s)
                    if s == "end":
                        section = None
                        continue
                    if mp:
                        n = mp.group(1)
                        if n in MATLAB_RESERVED:
                            out.append("%s:%d: property named '%s' is a reserved word" % (f, ln, n))
                        if ("p", n) in defs:
                            out.append("%s:%d: property '%s' defined twice" % (f, ln, n))
                        defs[("p", n)] = ln
                elif section == "enumeration":
                    if s == "end":
                        section = None
                        continue
                    mp = re.match(r"^(\w+)\s*(\(|$|,)", s)
                    if mp:
                        n = mp.group(1)
                        if n in MATLAB_RESERVED:
                            out.append("%s:%d: enumeration member '%s' is a reserved word" % (f, ln, n))
                        if ("e", n) in defs:
                            out.append("%s:%d: enumeration member '%s' defined twice" % (f, ln, n))
                        defs[("e", n)] = ln
                mf = re.match(r"^function\s+(?:\[?[^=\]]*\]?\s*=\s*)?([\w.]+)\s*(?:\(([^)]*)\))?", s)
                if mf:
                    n = mf.group(1)
                    if n.split(".")[-1] in MATLAB_RESERVED:
                        out.append("%s:%d: function named '%s' is a reserved word" % (f, ln, n))
                    if m and ("f", n) in defs:
                        out.append("%s:%d: method '%s' defined twice" % (f, ln, n))
                    defs[("f", n)] = ln
                    for a in (mf.group(2) or "").split(","):
                        a = a.strip()
                        if a in MATLAB_RESERVED:
                            out.append("%s:%d: parameter named '%s' is a reserved word" % (f, ln, a))
                    ret = re.match(r"^function\s+\[?([^=\]]*)\]?\s*=", s)
                    if ret:
                        for a in re.split(r"[,\s]+", ret.group(1).strip()):
                            if a in MATLAB_RESERVED:
                                out.append("%s:%d: return value named '%s' is a reserved word" % (f, ln, a))
                # identifiers used as struct-like member access or assignment targets that are reserved
                for mm in re.finditer(r"(?<![\w.])(?:self|obj|other|value|res|instance)\.(\w+)", s):
                    if mm.group(1) in MATLAB_RESERVED:
                        out.append("%s:%d: member access .%s uses a reserved word" % (f, ln, mm.group(1)))
            rel = os.path.relpath(p, root).lower()
            lower_seen.setdefault(rel, []).append(f)
    return out

def expected_matlab_files(matroot, ns_dir, type_names):
    out = []
    for t in type_names:
        if not os.path.exists(os.path.join(matroot, ns_dir, t + ".m")):
            out.append("no file %s.m for model type" % t)
    return out

PY_INSTANTIATE = """
import inspect, enum
bad = []
for mn in %r:
    mod = sys.modules[mn]
    for name, cls in inspect.getmembers(mod, inspect.isclass):
        if cls.__module__ != mn or issubclass(cls, enum.Enum) or name.endswith("UnionCase") or "__init__" not in cls.__dict__:
            continue
        try:
            sig = inspect.signature(cls.__init__)
        except (TypeError, ValueError):
            continue
        params = list(sig.parameters.values())[1:]
        if any(p.default is inspect.Parameter.empty and p.kind not in (p.VAR_POSITIONAL, p.VAR_KEYWORD) for p in params):
            continue
        try:
            obj = cls()
        except Exception as e:
            bad.append("%%s.%%s(): %%s: %%s" %% (mn, name, type(e).__name__, e))
            continue
        # a default-constructed record is a value of its type: the generated binary serializer must be able to write it and read it back
        bmod = sys.modules.get(mn[:-len("types")] + "binary")
        ser = getattr(bmod, name + "Serializer", None) if bmod is not None else None
        if ser is None:
            continue
        try:
            if any(p.default is inspect.Parameter.empty for p in list(inspect.signature(ser.__init__).parameters.values())[1:]):
                continue        # generic record: its serializer needs the type arguments' serializers
        except (TypeError, ValueError):
            continue
        try:
            import io
            _b = sys.modules[mn[:-len("types")] + "_binary"]
            buf = io.BytesIO()
            out = _b.CodedOutputStream(buf)
            ser().write(out, obj)
            out.flush()
            back = ser().read(_b.CodedInputStream(io.BytesIO(buf.getvalue())))
            if not (back == obj):
                bad.append("%%s.%%s(): the default instance does not survive its own binary serializer: wrote %%r, read %%r" %% (mn, name, obj, back))
        except Exception as e:
            bad.append("%%s.%%s(): the default instance cannot be written with %%sSerializer: %%s: %%s" %% (mn, name, name, type(e).__name__, e))
if bad:
    print(" ; ".join(bad)[:600])
    sys.exit(1)
"""


def evaluate(wd, files, pkgdir="model", cfg=None, pyimport=None, want=("cpp", "python", "matlab", "json")):
    """Writes the tree, validates, generates, checks each target. Returns {"accepted":bool, "fails":[(target, stage, detail)]}."""
    cfg = dict(DEFAULT_CFG, **(cfg or {}))
    shutil.rmtree(wd, ignore_errors=True)
    build.write_tree(wd, {k: v for k, v in files.items() if not k.startswith("__")})
    cwd = os.path.join(wd, pkgdir)
    rc, out, err = build.yardl(["validate"] + cli_overrides(cfg), cwd=cwd)
    if rc == 1 and "panic" not in err and "goroutine" not in err:
        return {"accepted": False, "fails": [], "stderr": err[-600:]}
    if rc != 0:
        return {"accepted": True, "fails": [("all", "validate-crash", err[-600:])]}
    rc, out, err = build.yardl(["generate"] + cli_overrides(cfg), cwd=cwd)
    if rc != 0:
        return {"accepted": True, "fails": [("all", "generate", "exit %d: %s" % (rc, err[-600:]))]}
    fails = []
    outdir = os.path.join(wd, "out")
    targets = cfg.get("targets", ("cpp", "python", "matlab", "json"))
    if "cpp" in targets and "cpp" in want and cfg.get("override", True):
        cppdir = os.path.join(outdir, "cpp")
        srcs = []
        for dp, dn, fn in os.walk(cppdir):
            if os.path.relpath(dp, cppdir).split(os.sep)[0] == "yardl":
                continue
            srcs += [os.path.join(dp, f) for f in fn if f.endswith(".cc") and f not in ("mocks.cc", "factories.cc", "translator_impl.cc")]
        for s in sorted(srcs):
            p = subprocess.run(["g++", "-std=c++17", "-fsyntax-only", "-w", "-fmax-errors=5", "-I", SHIMS, "-I", SHIMS_H5, "-I", inc_dir(), "-I", cppdir, s],
                               capture_output=True, text=True)
            if p.returncode != 0:
                errs = [l for l in p.stderr.split("\n") if "error" in l][:3]
                fails.append(("cpp", "compile:" + os.path.relpath(s, cppdir), " | ".join(e[-260:] for e in errs) or p.stderr[-400:]))
    if "python" in targets and "python" in want:
        pydir = os.path.join(outdir, "py")
        pkgs = [d for d in sorted(os.listdir(pydir)) if os.path.isdir(os.path.join(pydir, d))] if os.path.isdir(pydir) else []
        if not pkgs:
            fails.append(("python", "generate", "no package directory written"))
        mods = []
        for pk in pkgs:
            for f in sorted(os.listdir(os.path.join(pydir, pk))):
                if f.endswith(".py"):
                    mods.append(pk if f == "__init__.py" else pk + "." + f[:-3])
                    if not f.startswith("_") and f != "yardl_types.py":
                        for d in py_dups(os.path.join(pydir, pk, f)):
                            fails.append(("python", "duplicate-definition", d))
        mods.sort(key=lambda m: (m.count("."), m))
        code = "import sys, importlib\nsys.path.insert(0, %r)\nfor m in %r:\n    importlib.import_module(m)\n" % (pydir, mods)
        p = subprocess.run([build.PY, "-c", code], capture_output=True, text=True, cwd=wd, env=dict(os.environ, PYTHONDONTWRITEBYTECODE="1"))
        if p.returncode != 0:
            fails.append(("python", "import", " | ".join(p.stderr.strip().split("\n")[-3:])[-500:]))
        else:
            # every record class whose constructor has only defaulted parameters must be constructible (a parameter that shadows a
            # module, a default that refers to a shadowed name ... only show when the constructor runs)
            code2 = code + PY_INSTANTIATE % ([m for m in mods if m.endswith(".types")],)
            p = subprocess.run([build.PY, "-c", code2], capture_output=True, text=True, cwd=wd, env=dict(os.environ, PYTHONDONTWRITEBYTECODE="1"))
            if p.returncode != 0:
                fails.append(("python", "instantiate", (p.stdout.strip().split("\n")[-1:] + p.stderr.strip().split("\n")[-2:])[0][-400:] if p.stdout.strip() else " | ".join(p.stderr.strip().split("\n")[-3:])[-400:]))
            elif files.get("__py_probe__"):
                # model-specific use of the imported package (e.g. a value round trip through the generated binary writer/reader)
                p = subprocess.run([build.PY, "-c", code + files["__py_probe__"]], capture_output=True, text=True, cwd=wd, env=dict(os.environ, PYTHONDONTWRITEBYTECODE="1"))
                if p.returncode != 0:
                    fails.append(("python", "use", " | ".join((p.stdout.strip().split("\n")[-1:] + p.stderr.strip().split("\n")[-2:]))[-400:]))
    if "matlab" in targets and "matlab" in want:
        for d in matlab_lint(os.path.join(outdir, "matlab")):
            fails.append(("matlab", "lint", d))
    if "json" in targets and "json" in want:
        jd = os.path.join(outdir, "json")
        try:
            for f in os.listdir(jd):
                json.load(open(os.path.join(jd, f)))
        except Exception as e:  # noqa
            fails.append(("json", "parse", repr(e)[:300]))
    return {"accepted": True, "fails": fails}

# ------------------------------------------------------------------------------------------------------------- part A: roles
def base_model(rq_fields="", rq_computed="", eq_values="", lq_values="", pq_steps="", extra=""):
    return BASE_MODEL % dict(rq_fields=rq_fields, rq_computed=rq_computed, eq_values=eq_values, lq_values=lq_values, pq_steps=pq_steps) + extra


def items_package(items):
    """Files of a package that holds the baseline plus one declaration per item = (role, word)."""
    files = {}
    kw = {}
    extra = []
    steps = []
    for i, (role, w) in enumerate(items):
        z = "Zz%d" % i
        if role == "field":
            extra.append("%s: !record\n  fields:\n    %s: int\n" % (z, w))
        elif role == "field@Rq":
            kw["rq_fields"] = kw.get("rq_fields", "") + "    %s: int\n" % w
            continue
        elif role == "computed":
            extra.append("%s: !record\n  fields:\n    zy: int\n  computedFields:\n    %s: zy\n" % (z, w))
        elif role == "computed@Rq":
            kw["rq_computed"] = kw.get("rq_computed", "") + "    %s: fq\n" % w
            continue
        elif role == "enumval":
            extra.append("%s: !enum\n  values: [%s, zy]\n" % (z, w))
        elif role == "enumval@Eq":
            kw["eq_values"] = kw.get("eq_values", "") + ", " + w
            continue
        elif role == "flagval":
            extra.append("%s: !flags\n  values: [%s, zy]\n" % (z, w))
        elif role == "flagval@Lq":
            kw["lq_values"] = kw.get("lq_values", "") + ", " + w
            continue
        elif role == "tag":
            extra.append("%s: !union\n  %s: int\n  zy: string\n" % (z, w))
        elif role == "step@Pq":
            kw["pq_steps"] = kw.get("pq_steps", "") + "    %s: int\n" % w
            continue
        elif role == "streamstep@Pq":
            kw["pq_steps"] = kw.get("pq_steps", "") + "    %s: !stream\n      items: int\n" % w
            continue
        elif role == "switchvar":
            extra.append("%s: !record\n  fields:\n    zy: [int, float]\n  computedFields:\n    zc:\n      !switch zy:\n        int %s: %s\n        float: 1\n" % (z, w, w))
        elif role == "dim":
            extra.append("%s: !record\n  fields:\n    zy: !array\n      items: int\n      dimensions: [%s, zx]\n  computedFields:\n    zc: size(zy, '%s')\n" % (z, w, w))
        elif role == "record":
            extra.append("%s: !record\n  fields:\n    zy: int\n" % w)
            z = w
        elif role == "enum":
            extra.append("%s: !enum\n  values: [zy, zx]\n" % w)
            z = w
        elif role == "flags":
            extra.append("%s: !flags\n  values: [zy, zx]\n" % w)
            z = w
        elif role == "alias":
            extra.append("%s: int*\n" % w)
            z = w
        elif role == "recordalias":
            extra.append("%s: Rq\n" % w)
            z = w
        elif role == "union":
            extra.append("%s: !union\n  zy: int\n  zx: string\n" % w)
            z = w
        elif role == "simpleunion":
            extra.append("%s: [int, string]\n" % w)
            z = w
        elif role == "generic":
            extra.append("%s<Tz>: !record\n  fields:\n    zy: Tz\n" % w)
            z = w + "<int>"
        elif role == "genericparam":
            extra.append("%s<%s>: !record\n  fields:\n    zy: %s\n    zx: %s*\n" % (z, w, w, w))
            z = z + "<int>"
        elif role == "protocol":
            extra.append("%s: !protocol\n  sequence:\n    zy: int\n    zx: !stream\n      items: int\n" % w)
            continue
        else:
            raise ValueError(role)
        steps.append("    zs%d: %s\n" % (i, z))
    kw["pq_steps"] = kw.get("pq_steps", "") + "".join(steps)
    files["model/model.yml"] = base_model(extra="".join(extra), **kw)
    files["model/_package.yml"] = manifest("Bq", DEFAULT_CFG)
    return files


def ns_package(role, ws):
    files = {}
    if role == "namespace":
        files["model/model.yml"] = base_model()
        files["model/_package.yml"] = manifest(ws[0], DEFAULT_CFG)
    else:  # importns: one imported package per word
        steps = []
        for i, w in enumerate(ws):
            files["imp%d/_package.yml" % i] = "namespace: %s\n" % w
            files["imp%d/model.yml" % i] = "Zi: !record\n  fields:\n    zy: int\nZe: !enum\n  values: [zy, zx]\nZg<T>: !record\n  fields:\n    zy: T\nZa: int*\n"
            steps.append("    zs%da: %s.Zi\n    zs%db: %s.Ze\n    zs%dc: %s.Zg<int>\n    zs%dd: %s.Za\n" % (i, w, i, w, i, w, i, w))
        files["model/model.yml"] = base_model(pq_steps="".join(steps))
        files["model/_package.yml"] = manifest("Bq", DEFAULT_CFG, imports=tuple("../imp%d" % i for i in range(len(ws))))
    return files


# member roles that can share one package for the same word (no two of a group put the word into the same scope)
MEMBER_GROUPS = [["field@Rq", "enumval@Eq", "flagval@Lq", "step@Pq", "computed", "tag", "switchvar", "dim"],
                 ["computed@Rq", "streamstep@Pq", "field", "enumval", "flagval"]]
MEMBER_ROLES = [r for g in MEMBER_GROUPS for r in g]
TYPE_ROLES = ["record", "enum", "flags", "alias", "recordalias", "union", "simpleunion", "generic", "genericparam", "protocol"]
NS_ROLES = ["namespace", "importns"]

_inner = None


def inner_pool():
    global _inner
    if _inner is None:
        _inner = ThreadPoolExecutor(build.NCPU)
    return _inner


class Explorer:
    """Evaluates item packages; isolates rejected items and minimal failing item sets."""

    def __init__(self, chk, tag):
        self.chk = chk
        self.tag = tag
        self.slot = itertools.count()
        self.evals = 0

    def wd(self):
        return os.path.join(build.scratch(), "c08", "%s_%d_%d" % (self.tag, os.getpid(), next(self.slot)))

    def run(self, items):
        wd = self.wd()
        self.evals += 1
        try:
            r = evaluate(wd, items_package(items))
        finally:
            shutil.rmtree(wd, ignore_errors=True)
        return r

    def accepted_subset(self, items):
        """Drop the items yardl rejects (precondition of the property false)."""
        wd = self.wd()

        def ok(ws):
            shutil.rmtree(wd, ignore_errors=True)
            build.write_tree(wd, items_package(ws))
            rc, out, err = build.yardl(["validate"], cwd=os.path.join(wd, "model"))
            if rc not in (0, 1) or "goroutine" in err:
                return True     # a crash is not a rejection; evaluate() reports it
            return rc == 0
        rejected = []

        def rec(ws):
            if not ws or ok(ws):
                return ws
            if len(ws) == 1:
                rejected.append(ws[0])
                return []
            h = len(ws) // 2
            both = rec(ws[:h]) + rec(ws[h:])
            if both and not ok(both):
                keep = []
                for w in both:
                    if ok(keep + [w]):
                        keep.append(w)
                    else:
                        rejected.append(w)
                return keep
            return both
        try:
            kept = rec(list(items))
        finally:
            shutil.rmtree(wd, ignore_errors=True)
        return kept, rejected

    def failing(self, r):
        return r["accepted"] and bool(r["fails"])

    def ddmin(self, items):
        cur = list(items)
        n = 2
        while len(cur) >= 2:
            size = max(1, (len(cur) + n - 1) // n)
            chunks = [cur[i:i + size] for i in range(0, len(cur), size)]
            res = list(inner_pool().map(self.run, chunks))
            hit = next((c for c, r in zip(chunks, res) if self.failing(r)), None)
            if hit is not None:
                cur, n = hit, 2
                continue
            comps = [[w for w in cur if w not in c] for c in chunks]
            comps = [c for c in comps if c]
            res = list(inner_pool().map(self.run, comps))
            hit = next((c for c, r in zip(comps, res) if self.failing(r)), None)
            if hit is not None:
                cur, n = hit, max(n - 1, 2)
                continue
            if n >= len(cur):
                break
            n = min(len(cur), n * 2)
        return cur

    def sibling_form(self, k):
        """A two-item kernel in which one item fails next to any sibling of the other's role is rewritten with a neutral sibling
        name (keeps finding keys stable: 'yardl' + any later computed field)."""
        if len(k) != 2:
            return k
        for x, y in ((k[0], k[1]), (k[1], k[0])):
            neutral = (y[0], "Zzneutral" if y[1][:1].isupper() else "zzneutral")
            for cand in ([x, neutral], [neutral, x]):
                if self.failing(self.run(cand)):
                    return cand
        return k

    def kernels(self, items, first=None):
        """Minimal failing item sets of a package: singles first (two parallel rounds), then ddmin for interactions."""
        items = list(items)
        r = first or self.run(items)
        if not self.failing(r):
            return []
        out = []
        if len(items) > 1:
            size = 8
            chunks = [items[i:i + size] for i in range(0, len(items), size)]
            res = list(inner_pool().map(self.run, chunks)) if len(chunks) > 1 else [r]
            bad_chunks = [c for c, rr in zip(chunks, res) if self.failing(rr)]
            singles = [[w] for c in bad_chunks for w in c]
            sres = list(inner_pool().map(self.run, singles))
            bad = []
            for s, rr in zip(singles, sres):
                if self.failing(rr):
                    out.append((s, rr["fails"]))
                    bad.append(s[0])
            rest = [w for w in items if w not in bad]
            guard = 0
            while rest and guard < 4:
                rr = self.run(rest)
                if not self.failing(rr):
                    break
                k0 = self.ddmin(rest)
                k = self.sibling_form(k0)
                out.append((k, self.run(k)["fails"]))
                culprit = next((w for w in k if w in k0), k0[-1]) if k != k0 else k0[-1]
                rest = [w for w in rest if w != culprit]
                guard += 1
            if guard >= 4:
                out.append(([("cap", "...")], [("all", "cap", "more than 4 interacting failing sets in one package; isolation stopped")]))
        else:
            out.append((items, r["fails"]))
        return out


def harvest(thorough):
    """Identifiers of the code generated for the baseline model (and of the static runtime files in the thorough tier)."""
    wd = os.path.join(build.scratch(), "c08", "harvest")
    build.write_tree(wd, {"model/model.yml": base_model(), "model/_package.yml": manifest("Bq", DEFAULT_CFG)})
    rc, out, err = build.yardl(["generate"], cwd=os.path.join(wd, "model"))
    if rc != 0:
        raise build.HarnessError("baseline model does not generate: " + err[-400:])
    toks = set()
    for dp, dn, fn in os.walk(os.path.join(wd, "out")):
        parts = os.path.relpath(dp, os.path.join(wd, "out")).split(os.sep)
        static = "yardl" in parts or "+yardl" in parts
        for f in fn:
            is_static = static or f in ("_binary.py", "_ndjson.py", "_dtypes.py", "yardl_types.py")
            if is_static and not thorough:
                continue
            if f.endswith((".h", ".cc", ".py", ".m")):
                toks.add(os.path.splitext(f)[0])
                txt = open(os.path.join(dp, f), errors="replace").read()
                if f.endswith(".py"):
                    txt = re.sub(r"#[^\n]*", " ", txt)
                elif f.endswith(".m"):
                    txt = re.sub(r"%[^\n]*", " ", txt)
                else:
                    txt = re.sub(r"//[^\n]*", " ", txt)
                toks.update(re.findall(r"[A-Za-z_][A-Za-z0-9_]*", txt))
    shutil.rmtree(wd, ignore_errors=True)
    return toks


def words_of(toks, with_suffixes=True):
    member, typ = set(), set()
    for t in toks:
        for s in spellings(t, with_suffixes):
            if len(s) > 40:
                continue
            if MEMBER_RE.match(s):
                member.add(s)
            if TYPE_RE.match(s):
                typ.add(s)
    return sorted(member), sorted(typ)


ISOLATE = {"none", "null", "union", "value", "assert", "yardl", "errno"}
PY_HARD = PY_KEYWORDS[:PY_KEYWORDS.index("print")] + ["self", "cls"]


def part_a(chk, quick):
    """quick: reserved words of the three languages and YAML-special words; thorough: + builtins and module names, C library macros,
    identifiers of the generated code and of the runtime files."""
    kw = set(CPP_KEYWORDS) | set(PY_HARD) | MATLAB_RESERVED | set(YAML_WORDS)
    toks = set(kw)
    gen = set()
    if not quick:
        toks |= set(CPP_MACROS) | set(PY_KEYWORDS) | set(MATLAB_KEYWORDS)
        gen = harvest(True) - toks
        toks |= gen
    member, typ = words_of(toks - gen, False)
    if gen:
        m2, t2 = words_of(gen)
        member, typ = sorted(set(member) | set(m2)), sorted(set(typ) | set(t2))
    chk.extra["partA"] = {"tokens": len(toks), "member_words": len(member), "type_words": len(typ)}
    K = 24

    def bins(words):
        """Packages of at most K words, no two of which differ only in case (those pairs are part B's subject)."""
        out = []
        for w in words:
            n = w.lower()
            for b in out:
                if len(b[0]) < K and n not in b[1]:
                    b[0].append(w)
                    b[1].add(n)
                    break
            else:
                out.append(([w], {n}))
        return [b[0] for b in out]
    # words known to fail or to interact with siblings are evaluated on their own (next to one neutral sibling), so that the
    # packs around them need no isolation runs; they are evaluated and reported like every other item
    for w in member + typ:
        WORD_CLASS[w] = word_class(w, gen)

    def prio(w):
        c = WORD_CLASS[w]
        return (0 if c in ("cpp-keyword", "python-keyword-or-builtin", "matlab-keyword-or-builtin", "yaml-special") else
                1 if c == "c-library-macro" else 2 if c.startswith("derived:") or c == "same-as-existing-name" else 3, w)
    # simplest first: if the thorough tier runs out of its time budget, what was covered is a prefix of this order
    member.sort(key=prio)
    typ.sort(key=prio)
    alone = [w for w in member + typ if w.lower() in ISOLATE]
    member = [w for w in member if w.lower() not in ISOLATE]
    typ = [w for w in typ if w.lower() not in ISOLATE]
    jobs = []
    for w in alone:
        if MEMBER_RE.match(w):
            jobs += [[(role, w), (role, "zzneutral")] for role in MEMBER_ROLES]
        else:
            jobs += [[(role, w), ("simpleunion", "Zzneutral")] for role in TYPE_ROLES]
    for g in MEMBER_GROUPS:
        for b in bins(member):
            jobs.append([(role, w) for w in b for role in g])
    for shift in range(len(TYPE_ROLES)):
        for b in bins(typ):
            jobs.append([(TYPE_ROLES[(j + shift) % len(TYPE_ROLES)], w) for j, w in enumerate(b)])
    hard = set(PY_HARD) | MATLAB_RESERVED | {"null", "true", "int", "namespace", "yardl", "binary", "ndjson", "hdf5", "std", "numpy", "typing", "types", "datetime"} | set(CLIB_FUNCTIONS)
    nswords = words_of(hard, False)[1] if quick else typ
    ex = Explorer(chk, "a")

    skipped = []

    def job(items):
        if chk.out_of_time():
            skipped.append(len(items))
            return items, [], [], []
        kept, rejected = ex.accepted_subset(items)
        if len(items) == 2 and items[1][1].lower() == "zzneutral":
            # an isolated word with its neutral sibling: report the word alone unless only the pair fails
            kern = []
            if len(kept) == 2:
                r2 = ex.run(kept)
                if ex.failing(r2):
                    r1 = ex.run(kept[:1])
                    kern = [(kept[:1], r1["fails"])] if ex.failing(r1) else [(kept, r2["fails"])]
            elif kept and kept[0] == items[0]:
                r1 = ex.run(kept)
                kern = [(kept, r1["fails"])] if ex.failing(r1) else []
            kept = [k for k in kept if k[1].lower() != "zzneutral"]
            items = items[:1]
        else:
            kern = ex.kernels(kept) if kept else []
        if os.environ.get("VERIF_DEBUG"):
            for ws, fails in kern:
                sys.stderr.write("KERNEL %s :: %s\n" % (ws, [(t, st, d[:200]) for t, st, d in fails][:2]))
            sys.stderr.write("JOB done %d items, %d rejected, %d kernels, evals so far %d\n" % (len(items), len(rejected), len(kern), ex.evals))
            sys.stderr.flush()
        return items, kept, rejected, kern

    def nseval(role, ws):
        wd = ex.wd()
        ex.evals += 1
        try:
            return evaluate(wd, ns_package(role, ws))
        finally:
            shutil.rmtree(wd, ignore_errors=True)

    def nsjob(j):
        """Imported namespaces are packed (one import per word); a failing or rejected pack is split into single words."""
        role, ws = j
        if chk.out_of_time():
            skipped.append(len(ws))
            return []
        r = nseval(role, ws)
        if len(ws) == 1 or (r["accepted"] and not r["fails"]):
            return [(role, w, r) for w in ws]
        return [(role, w, nseval(role, [w])) for w in ws]
    nsjobs = [("namespace", [w]) for w in nswords] + [("importns", nswords[i:i + 12]) for i in range(0, len(nswords), 12)]
    with ThreadPoolExecutor(build.NCPU) as pool:
        results = list(pool.map(job, jobs))
        nsresults = [x for lst in pool.map(nsjob, nsjobs) for x in lst]
    nrej = 0
    for items, kept, rejected, kern in results:
        if not kept and not rejected and not kern:
            continue          # not reached (time budget)
        chk.count(len(items))
        nrej += len(rejected)
        for it in kept:
            chk.nontriv(("A",) + tuple(it))
        for ws, fails in kern:
            report(chk, "A", ws, fails)
    for role, w, r in nsresults:
        chk.count()
        if r["accepted"]:
            chk.nontriv(("A", role, w))
            if r["fails"]:
                report(chk, "A", [(role, w)], r["fails"])
        else:
            nrej += 1
    chk.extra["partA"].update(packages=len(jobs) + len(nsresults), items_rejected_by_validation=nrej, package_evaluations=ex.evals,
                              items_not_reached_within_time_budget=sum(skipped))
    chk.sample({"part": "A", "member_words": member[:8], "type_words": typ[:8], "roles": MEMBER_ROLES + TYPE_ROLES + NS_ROLES})


WORD_CLASS = {}
_SP = {}


BASE_NAMES = ["Rq", "Eq", "Lq", "Uq", "Aq", "Gq", "Pq", "Tq", "fq", "gq", "hq", "vq", "aq", "nq", "mq", "dq", "cq", "sq", "zq", "iq", "xq", "yq", "oq", "pq",
              "tq", "wq", "kq", "lq", "jq", "bq", "eq", "uq", "rq", "ll", "al"]


# functions the C library declares in the global namespace (a sample of those reachable from the runtime's includes): a C++
# namespace, which yardl derives from the package's namespace in snake_case, cannot share their name
CLIB_FUNCTIONS = ["trunc", "time", "exit", "index", "abs", "round", "log", "printf", "remove", "rename", "signal", "clock", "free", "div"]


def word_class(w, gen=None):
    """Where a candidate word comes from (part of the finding key): a keyword list, or the pattern by which the generator
    derives an identifier from a baseline name (PqWriterBase -> derived:XWriterBase)."""
    if not _SP:
        for cls, toks in (("cpp-keyword", CPP_KEYWORDS), ("c-library-macro", CPP_MACROS), ("c-library-function", CLIB_FUNCTIONS), ("python-keyword-or-builtin", PY_KEYWORDS),
                          ("matlab-keyword-or-builtin", MATLAB_KEYWORDS), ("yaml-special", YAML_WORDS)):
            for t in toks:
                for sp in spellings(t, False):
                    _SP.setdefault(sp, cls)
    if w in _SP:
        return _SP[w]
    for b in BASE_NAMES:
        for form in (b, b[:1].upper() + b[1:], b[:1].lower() + b[1:]):
            if w == form:
                return "same-as-existing-name"
    pat = w
    for b in sorted(BASE_NAMES, key=len, reverse=True):
        B = b[:1].upper() + b[1:]
        if B in pat:
            pat = pat.replace(B, "X")
        elif pat.startswith(b[:1].lower() + b[1:]) and len(pat) > len(b) and pat[len(b)].isupper():
            pat = "x" + pat[len(b):]
    return "derived:" + pat if pat != w else "generated-identifier"


_pymods = None


def python_modules():
    global _pymods
    if _pymods is None:
        p = subprocess.run([build.PY, "-c", "import sys, pkgutil; print(' '.join(sorted(set(sys.stdlib_module_names) | {m.name for m in pkgutil.iter_modules()})))"],
                           capture_output=True, text=True)
        _pymods = set(p.stdout.split())
    return _pymods


def classify(items, target, stage, detail):
    """Finding key of a failing minimal item set."""
    roles = "+".join(sorted({r for r, _ in items}))
    words = "+".join(w for _, w in items)
    if len(items) == 1 and items[0][0] in NS_ROLES:
        w = items[0][1]
        snake = re.sub(r"(?<=[a-z0-9])(?=[A-Z])", "_", w).lower()
        if target == "python" and items[0][0] == "importns" and snake in ("binary", "ndjson", "protocols", "types", "yardl", "yardl_types"):
            return "imported-namespace-equals-generated-python-module/%s" % snake
        if target == "python" and (snake in PY_HARD or snake.capitalize() in PY_HARD):
            return "namespace-is-reserved-word/python/%s" % items[0][0]
        if target == "matlab" and snake in MATLAB_RESERVED:
            return "namespace-is-reserved-word/matlab/%s" % items[0][0]
        if target == "python" and (snake in python_modules() or w.lower() in python_modules()):
            return "namespace-shadows-python-module/%s" % items[0][0]
        if target == "cpp" and snake in CLIB_FUNCTIONS:
            return "namespace-equals-c-library-function/%s" % items[0][0]
        if target == "cpp" and w.lower() in ("yardl", "binary", "ndjson", "hdf5", "detail", "std"):
            return "namespace-equals-namespace-used-by-generated-cpp/%s/%s" % (items[0][0], w.lower())
    st = stage.split(":")[0]
    if len(items) >= 2:
        ws = [w for _, w in items]
        if len({w.replace("_", "").lower() for w in ws}) == 1:
            kind = "differ-only-in-case"
        elif len(items) == 2 and (ws[1].lower().startswith(ws[0].lower()) or ws[0].lower().startswith(ws[1].lower())):
            a, b = sorted(ws, key=len)
            kind = "one-extends-the-other:X" + b[len(a):]
        else:
            kind = "other"
        return "pair/%s/%s/%s/%s/%s" % (kind, target, st, roles, words)
    return "name/%s/%s/%s/%s/%s" % (WORD_CLASS.get(items[0][1], "word") if items else "word", target, st, roles, words)


def report(chk, part, items, fails):
    if items and items[0][0] == "cap":
        # isolation gave up on a package with many interacting failures: bookkeeping, not a verdict
        chk.exhaustive = False
        chk.extra["isolation_capped"] = chk.extra.get("isolation_capped", 0) + 1
        return
    by_target = {}
    for t, s, d in fails:
        by_target.setdefault(t, []).append((s, d))
    for t, lst in sorted(by_target.items()):
        key = classify(items, t, lst[0][0], lst[0][1])
        chk.outcome((part, t, lst[0][0].split(":")[0]))
        files = None
        if all(r not in NS_ROLES for r, _ in items) and items and items[0][0] != "cap":
            files = items_package(items)
        chk.fail(key, "accepted package, %s output not well-formed; %s: %s: %s" % (
            t, ", ".join("%s '%s'" % it for it in items), lst[0][0], lst[0][1][:300]),
            {"part": part, "items": items, "target": t, "failures": lst[:5], "files": files})


# ---------------------------------------------------------------------------------------------------- part B: pairs in scope

def short_names(maxlen, first, alphabet="abAB1"):
    out = []
    for n in range(1, maxlen + 1):
        for rest in itertools.product(alphabet, repeat=n - 1):
            for f in first:
                out.append(f + "".join(rest))
    return out


SCOPES = {  # scope -> (role that puts a name into that scope, identifier functions that name the target identifiers)
    "fields-of-one-record": ("field@Rq", ("cpp_field", "py_field", "mat_field")),
    "computed-fields-of-one-record": ("computed@Rq", ("cpp_computed", "py_computed", "mat_computed")),
    "values-of-one-enum": ("enumval@Eq", ("cpp_enum", "py_enum", "mat_enum")),
    "values-of-one-flags": ("flagval@Lq", ("cpp_enum", "py_enum", "mat_enum")),
    "steps-of-one-protocol": ("step@Pq", ("cpp_computed", "py_field", "mat_field")),
    "stream-steps-of-one-protocol": ("streamstep@Pq", ("cpp_computed", "py_field", "mat_field")),
    "records-of-one-namespace": ("record", ("cpp_type", "py_type", "mat_type")),
    "enums-of-one-namespace": ("enum", ("cpp_type", "py_type", "mat_type")),
    "protocols-of-one-namespace": ("protocol", ("cpp_type", "py_type", "mat_type")),
}


def mangle(names):
    h = build.HarnessProc("mangle")
    r = h.call({"names": sorted(set(names))}, timeout=120)
    h.close()
    if "names" not in r:
        raise build.HarnessError("mangle harness: %r" % (r,))
    return r["names"]


def part_b(chk, quick):
    L = 3 if quick else 4
    alpha = "aA1" if quick else "abAB1"
    member = short_names(L, "a" if quick else "ab", alpha)
    typ = short_names(L, "A" if quick else "AB", alpha)
    kw = set(CPP_KEYWORDS) | set(CPP_MACROS) | set(PY_KEYWORDS) | set(MATLAB_KEYWORDS)
    kmember, ktyp = words_of(kw, False)
    mg = mangle(member + typ + kmember + ktyp)
    # names whose identifier is an escaped spelling (class -> class_field): the model spelling of the escaped identifier is a
    # second name for the same identifier (classField)
    esc_candidates = set()
    for n in kmember + ktyp:
        for k, ident in mg[n].items():
            if k in ("snake", "pascal") or ident.replace("_", "").lower() == n.lower():
                continue
            for s in spellings(ident):
                if s != n and (MEMBER_RE.match(s) or TYPE_RE.match(s)):
                    esc_candidates.add(s)
    mg.update(mangle(sorted(esc_candidates)))
    ex = Explorer(chk, "b")
    tasks = []      # (scope, kind, items)
    stats = {}
    for scope, (role, keys) in SCOPES.items():
        is_type = role in TYPE_ROLES
        names = typ if is_type else member
        kept, rejected = ex.accepted_subset([(role, n) for n in names])
        names = [n for _, n in kept]
        # union-find over every normalisation under which two names can meet
        parent = {n: n for n in names}

        def find(x):
            while parent[x] != x:
                parent[x] = parent[parent[x]]
                x = parent[x]
            return x
        predicted = set()
        for norm in [lambda n: n.replace("_", "").lower()] + [lambda n, k=k: mg[n][k] for k in keys] + [lambda n: mg[n]["snake"], lambda n: mg[n]["pascal"]]:
            inv = {}
            for n in names:
                inv.setdefault(norm(n), []).append(n)
            for grp in inv.values():
                for o in grp[1:]:
                    parent[find(o)] = find(grp[0])
        classes = {}
        for n in names:
            classes.setdefault(find(n), []).append(n)
        for k in keys:
            inv = {}
            for n in names:
                inv.setdefault(mg[n][k], []).append(n)
            for grp in inv.values():
                for pair in itertools.combinations(grp, 2):
                    predicted.add((pair, k))
        reps = [c[0] for c in classes.values()]
        tasks.append((scope, "representatives", [(role, n) for n in reps]))
        ngroups = 0
        for c in classes.values():
            if len(c) > 1:
                groups = [c] if quick else [list(p) for p in itertools.combinations(c, 2)]
                for g in groups:
                    tasks.append((scope, "suspects", [(role, n) for n in g]))
                    ngroups += 1
        # escaped spellings
        nesc = 0
        pool_names = ktyp if is_type else kmember
        seen_rule = set()
        for n in pool_names:
            for k in keys:
                ident = mg[n][k]
                if ident.replace("_", "").lower() == n.lower():
                    continue
                for s in spellings(ident):
                    if s != n and s in mg and mg[s][k] == ident and (TYPE_RE if is_type else MEMBER_RE).match(s):
                        rule = (k, s[len(n):] if s.startswith(n) else "?")
                        if quick and rule in seen_rule:
                            continue        # quick tier: the first reserved word per escape rule
                        seen_rule.add(rule)
                        tasks.append((scope, "escaped", [(role, n), (role, s)]))
                        predicted.add(((n, s), k))
                        nesc += 1
        stats[scope] = {"names": len(names), "pairs": len(names) * (len(names) - 1) // 2, "rejected_names": len(rejected), "classes": len(classes),
                        "suspect_groups": ngroups, "escaped_pairs": nesc,
                        "pairs_the_identifier_functions_map_to_one_identifier": len({p for p, _ in predicted}), "_predicted": predicted}

    def run(t):
        scope, kind, items = t
        kept, rejected = ex.accepted_subset(items) if kind == "escaped" else (items, [])
        if len(kept) < len(items):
            return t, None, []
        r = ex.run(items)
        if kind == "representatives":
            kern = ex.kernels(items, first=r) if ex.failing(r) else []
        else:
            kern = [(items, r["fails"])] if ex.failing(r) else []      # small groups are reported as they are
        return t, r, kern
    with ThreadPoolExecutor(build.NCPU) as pool:
        results = list(pool.map(run, tasks))
    for (scope, kind, items), r, kern in results:
        st = stats[scope]
        if r is None:
            continue
        names = [w for _, w in items]
        if kind == "representatives":
            chk.count(st["pairs"])
            chk.nontriv(("B", scope, "all-pairs", st["names"]))
        else:
            chk.count()
            chk.nontriv(("B", scope, tuple(names)))
        failing_pairs = set()
        for ws, fails in kern:
            report(chk, "B", ws, fails)
            failing_pairs.add(tuple(w for _, w in ws))
        # names the identifier functions map to one identifier must have been seen failing; if nothing failed the collision is
        # silent (later definition replaces the earlier) or outside what compilers / lints see: still a collision
        for (pair, k) in sorted(st["_predicted"]):
            if set(pair) <= set(names) and kind != "representatives":
                st["confirmed" if any(set(pair) <= set(fp) or set(fp) <= set(pair) for fp in failing_pairs) else "silent"] = \
                    st.get("confirmed" if any(set(pair) <= set(fp) or set(fp) <= set(pair) for fp in failing_pairs) else "silent", 0) + 1
                if not any(set(fp) <= set(pair) for fp in failing_pairs) and len(names) == 2:
                    tgt = {"cpp": "cpp", "py": "python", "mat": "matlab"}[k.split("_")[0]]
                    report(chk, "B", items, [(tgt, "same-identifier", "both names become the %s identifier '%s' (%s) and nothing in the generated code fails" % (tgt, mg[pair[0]][k], k))])
    for st in stats.values():
        st.pop("_predicted")
    chk.extra["partB"] = stats
    chk.extra["partB_package_evaluations"] = ex.evals
    chk.sample({"part": "B", "names": member[:10], "scopes": list(SCOPES)})


# ------------------------------------------------------------------------------------------------------------ part C: options
MAP_KEY_PROBE = """
import io, datetime
import bq
K = {"bool": [True, False], "string": ["a", ""], "date": [datetime.date(2020, 1, 2), datetime.date(1970, 1, 1)],
     "time": [bq.Time.from_components(1, 2, 3), bq.Time(0)], "datetime": [bq.DateTime.from_components(2020, 1, 2, 3, 4, 5), bq.DateTime(0)],
     "float32": [1.5, 0.0], "float64": [1.5, 0.0], "complexfloat32": [1 + 2j, 0j], "complexfloat64": [1 + 2j, 0j]}.get(%r, [1, 0])
val = bq.Rk(m={K[0]: 7, K[1]: 8})
buf = io.BytesIO()
with bq.BinaryPkWriter(buf) as w:
    w.write_a(val)
    w.write_b([{K[0]: 1}, {}])
buf.seek(0)
with bq.BinaryPkReader(buf) as r:
    got = r.read_a()
    gs = list(r.read_b())
if got != val or len(got.m) != 2 or sorted(got.m.values()) != [7, 8] or len(gs) != 2 or list(gs[0].values()) != [1]:
    print("map with %%s keys does not survive a binary round trip: wrote %%r read %%r / %%r" %% (%r, val.m, got.m, gs))
    sys.exit(1)
"""
SCALAR_PRIMS = ["bool", "int8", "uint8", "int16", "uint16", "int32", "uint32", "int64", "uint64", "size", "float32", "float64",
                "complexfloat32", "complexfloat64", "string", "date", "time", "datetime"]


def map_key_models():
    """One model per scalar primitive used as a map key ("keys are required to be scalar primitive types"): as a record field, a
    protocol step and a stream item."""
    out = {}
    for k in SCALAR_PRIMS:
        out["map-key-" + k] = {"model/model.yml": "Rk: !record\n  fields:\n    m: %s->int\nPk: !protocol\n  sequence:\n    a: Rk\n    b: !stream\n      items: !map\n        keys: %s\n        values: int\n" % (k, k),
                               "__py_probe__": MAP_KEY_PROBE % (k, k)}
    return out


def structure_models():
    """Models around one structural corner each (quick: one configuration, all targets). `__may_reject__`: yardl may refuse the
    model; if it accepts it, everything generated must compile / import like for any other model."""
    pk = "Pk: !protocol\n  sequence:\n    a: Rk\n"
    rec = lambda *fs: "Rk: !record\n  fields:\n%s" % "".join("    %s: %s\n" % f for f in fs)
    out = {
        # helper templates are emitted per union arity: the only 3-case union sits inside a case of a 2-case union
        "struct-union-arity-only-nested-in-vector": {"model/model.yml": rec(("u", "!union {scalar: double, items: !vector {items: [int, float, string]}}")) + pk},
        "struct-union-arity-only-nested-in-map": {"model/model.yml": rec(("u", "!union {scalar: double, m: !map {keys: string, values: [int, float, string, bool]}}")) + pk},
        "struct-union-arity-only-in-step": {"model/model.yml": rec(("x", "int")) + pk + "    b: [int, float, string, bool, long]\n"},
        "struct-union-arity-only-in-stream": {"model/model.yml": rec(("x", "int")) + pk + "    b: !stream\n      items: [int, float, string]\n"},
        "struct-union-arity-only-in-alias": {"model/model.yml": "Au: [int, float, string, bool]\n" + rec(("x", "Au?")) + pk},
        "struct-union-arity-only-in-generic-argument": {"model/model.yml": "Gk<T>: !record\n  fields:\n    t: T\n" + "Ug: [int, float, string]\n" + rec(("g", "Gk<Ug>")) + pk},
    }
    # structured collisions and text that reaches the generated sources verbatim (reported by seeding agents); yardl may reject
    may = {
        "comment-with-backslash-escape": "# path C:\\new\\x1 and \\N{DASH}\n" + rec(("x", "int")) + pk,
        "comment-ending-in-backslash": "# ends with a backslash \\\n" + rec(("x", "int")) + pk,
        "field-comment-ending-in-backslash": "Rk: !record\n  fields:\n    # trailing \\\n    x: int\n    y: int\n" + pk,
        "comment-with-triple-quotes": '# say """hello""" and */ too\n' + rec(("x", "int")) + pk,
        "unions-differing-by-alias-in-vector": "MyFloat: float\n" + rec(("u", "!union {i: int, fv: float*}"), ("v", "!union {i: int, fv: MyFloat*}")) + pk,
        "type-named-like-writer-base": "PkWriterBase: !record\n  fields:\n    x: int\n" + rec(("x", "PkWriterBase")) + pk,
        "type-named-like-binary-writer": "BinaryPkWriter: !record\n  fields:\n    x: int\n" + rec(("x", "BinaryPkWriter")) + pk,
        "type-named-like-serializer": "RkSerializer: !record\n  fields:\n    x: int\n" + rec(("x", "RkSerializer")) + pk,
        "containers-of-optionals": "Rk: !record\n  fields:\n    samples: !vector {items: [null, int]}\n    short: int?*\n    fixed: int?*3\n    m: !map {keys: string, values: [null, int]}\n" + pk,
        "fields-equal-in-snake-case": rec(("fooBar", "int"), ("fooBAR", "int")) + pk,
        "enum-values-equal-in-upper-snake-case": "Ek: !enum\n  values: [fooBar, fooBAR]\n" + rec(("e", "Ek")) + pk,
        "steps-a-and-aImpl": rec(("x", "int")) + pk + "    aImpl: int\n",
        "steps-s-and-endS": rec(("x", "int")) + "Pk: !protocol\n  sequence:\n    s: !stream\n      items: int\n    endS: int\n",
        "computed-field-named-like-record": "Rk: !record\n  fields:\n    x: int\n  computedFields:\n    rk: x\n" + pk,
        "field-named-like-record": rec(("rk", "int")) + pk,
        "enum-without-values": "Ek: !enum\n  values: []\n" + rec(("e", "Ek")) + pk,
        "flags-without-values": "Ek: !flags\n  values: []\n" + rec(("e", "Ek")) + pk,
        "generic-parameter-only-inside-array-item": "Wk<T>: !record\n  fields:\n    t: T\nGk<T>: !record\n  fields:\n    a: !array {items: Wk<T>}\n" + rec(("g", "Gk<int>")) + pk,
        "generic-parameter-only-inside-vector-item": "Wk<T>: !record\n  fields:\n    t: T\nGk<T>: !record\n  fields:\n    a: Wk<T>*\n" + rec(("g", "Gk<int>")) + pk,
        "int64-minimum-literal": "Ek: !enum\n  base: int64\n  values: {a: -0x8000000000000000}\n" + "Rk: !record\n  fields:\n    e: Ek\n  computedFields:\n    m: -9223372036854775808\n" + pk,
    }
    for name, text in may.items():
        out["struct-" + name] = {"model/model.yml": text, "__may_reject__": True}
    out["struct-version-labelled-current"] = {"model/model.yml": rec(("x", "int")) + pk, "v0/_package.yml": "namespace: Bq\n", "v0/model.yml": rec(("x", "int")) + pk,
                                              "__version_label__": "Current", "__may_reject__": True}
    # enum / flags values at the edges of the base type: accepted values must be representable in every backend
    for name, base, vals in (("enum-default-base-int32-max", None, "{a: 0, z: 0x7FFFFFFF}"), ("enum-default-base-above-int32", None, "{a: 0, z: 0xFFFFFFFF}"),
                             ("enum-default-base-below-int32", None, "{a: 0, z: -2147483649}"), ("enum-default-base-int32-min", None, "{a: 0, z: -2147483648}"),
                             ("enum-uint8-256", "uint8", "{a: 0, z: 256}"), ("enum-uint8-255", "uint8", "{a: 0, z: 255}"), ("enum-int8-minus-129", "int8", "{a: 0, z: -129}"),
                             ("enum-uint64-max", "uint64", "{a: 0, z: 0xFFFFFFFFFFFFFFFF}"), ("enum-int64-above", "int64", "{a: 0, z: 0x8000000000000000}"),
                             ("enum-uint16-negative", "uint16", "{a: 0, z: -1}")):
        out["struct-" + name] = {"model/model.yml": "Ek: !enum\n%s  values: %s\n" % ("" if base is None else "  base: %s\n" % base, vals) + rec(("e", "Ek")) + pk, "__may_reject__": True}
    return out


def option_models():
    base = base_model()
    types_only = base[:base.index("Pq: !protocol")]
    return dict(_option_models(base, types_only), **dict(map_key_models(), **structure_models()))


def _option_models(base, types_only):
    return {
        "baseline": {"model/model.yml": base},
        "types-only": {"model/model.yml": types_only},
        "protocols-only": {"model/model.yml": "Pz: !protocol\n  sequence:\n    a: int\n    b: !stream\n      items: string\n"},
        "single-type": {"model/model.yml": "Az: int\n"},
        "with-import": {"model/model.yml": base + "Ri: !record\n  fields:\n    a: Imp.Zi\n    b: Imp.Zg<Rq>\nPi: !protocol\n  sequence:\n    a: Ri\n    b: Imp.Ze\n",
                        "imp/_package.yml": "namespace: Imp\n",
                        "imp/model.yml": "Zi: !record\n  fields:\n    zy: int\nZe: !enum\n  values: [zy, zx]\nZg<T>: !record\n  fields:\n    zy: T\n"},
        "import-types-only-uses-protocols": {"model/model.yml": "Pz: !protocol\n  sequence:\n    a: Imp.Zi\n",
                                             "imp/_package.yml": "namespace: Imp\n",
                                             "imp/model.yml": "Zi: !record\n  fields:\n    zy: int\nPimp: !protocol\n  sequence:\n    q: Zi\n    u: [float, bool]\n"
                                                              "    su: !stream\n      items: [Zi, string]\n    ou: [null, int, string]\n"},
        "field-named-like-imported-namespace": {"model/model.yml": "Rn: !record\n  fields:\n    imp: Imp.Zi\n    other: Imp.Zi\nPn: !protocol\n  sequence:\n    a: Rn\n",
                                                "imp/_package.yml": "namespace: Imp\n", "imp/model.yml": "Zi: !record\n  fields:\n    zy: int\n"},
        "diamond-import": {"model/model.yml": "Rd: !record\n  fields:\n    b: Ib.Tb\n    c: Ic.Tc\nPd: !protocol\n  sequence:\n    a: Rd\n",
                           "ib/_package.yml": "namespace: Ib\nimports:\n  - ../id\n", "ib/model.yml": "Tb: !record\n  fields:\n    d: Id.Td\n",
                           "ic/_package.yml": "namespace: Ic\nimports:\n  - ../id\n", "ic/model.yml": "Tc: !record\n  fields:\n    d: Id.Td\n    e: Id.Ed\n",
                           "id/_package.yml": "namespace: Id\n", "id/model.yml": "Td: !record\n  fields:\n    v: int\nEd: !enum\n  values: [p, q]\n"},
        # local types used only as type arguments of imported generics, written before they are defined (record, enum, alias, union,
        # nested argument): definitions must still come out in dependency order in every back end
        "local-types-as-arguments-of-imported-generics": {
            "model/model.yml": "Ev: !record\n  fields:\n    sev: Imp.Zg<Sev>\n    inner: Imp.Zg<Imp.Zg<Late>>\n    pair: Imp.Zp<Late, Sev>\n    al: Imp.Za<Lal>\n"
                               "Pe: !protocol\n  sequence:\n    a: Ev\n    b: Imp.Zg<Late>\n    c: !stream\n      items: Imp.Zp<Sev, Lal>\n"
                               "Lal: Late*\nSev: !enum\n  values: [low, high]\nLate: !record\n  fields:\n    v: int\n",
            "imp/_package.yml": "namespace: Imp\n",
            "imp/model.yml": "Zg<T>: !record\n  fields:\n    zy: T\nZp<A, B>: !record\n  fields:\n    a: A\n    b: B\nZa<T>: T?\n"},
        "with-version": {"model/model.yml": base, "v0/_package.yml": "namespace: Bq\n", "v0/model.yml": base.replace("    gq: string?\n", "    gq: string\n")},
    }

def part_c(chk, quick):
    models = option_models()
    all_t = ("cpp", "python", "matlab", "json")
    tsets = [all_t, ("cpp",), ("python",), ("matlab",), ("json",)]
    if not quick:
        tsets = [s for r in range(1, 5) for s in itertools.combinations(all_t, r)]
    cases = []
    for mname, mfiles in models.items():
        for ts in tsets:
            cppo = list(itertools.product((True, False), repeat=4)) if "cpp" in ts else [(None,) * 4]
            pyo = (True, False) if "python" in ts else (None,)
            for nd, h5, cm, ov in cppo:
                for pn in pyo:
                    for via in (False, True):
                        single = mname.startswith(("map-key-", "struct-"))     # models about one construct, not about options
                        if single and quick and not (ts == all_t and (nd, h5, cm, ov, pn, via) == (True, True, True, True, True, False)):
                            continue
                        if single and not quick and (via or len(ts) not in (1, 4) or (nd, h5, cm, ov) not in ((True, True, True, True), (False, False, False, True), (None,) * 4) or pn is False):
                            continue
                        if quick:
                            full = ts == all_t and mname == "baseline"
                            corner = (nd, h5, cm, ov) in ((True, True, True, True), (False, False, False, True), (None,) * 4) and pn in (True, None)
                            if not (full and (not via or corner)) and not (corner and not via):
                                continue
                        cfg = {"targets": ts, "via_cli": via}
                        if nd is not None:
                            cfg.update(ndjson=nd, hdf5=h5, cmake=cm, override=ov)
                        if pn is not None:
                            cfg["pyndjson"] = pn
                        cases.append((mname, mfiles, cfg))
    slot = itertools.count()
    def run(case):
        mname, mfiles, cfg = case
        files = dict(mfiles)
        imports = ("../imp",) if "imp/_package.yml" in files else (("../ib", "../ic") if "ib/_package.yml" in files else ())
        versions = ((files.get("__version_label__", "v0"), "../v0"),) if "v0/_package.yml" in files else ()
        c = dict(DEFAULT_CFG)
        c.update(cfg)
        for k in ("ndjson", "hdf5", "cmake", "pyndjson"):
            if k not in cfg:
                c.pop(k, None)
        files["model/_package.yml"] = manifest("Bq", c, imports, versions)
        wd = os.path.join(build.scratch(), "c08", "c_%d_%d" % (os.getpid(), next(slot)))
        try:
            r = evaluate(wd, files, cfg=c)
            extra = []
            if r["accepted"] and not any(s == "generate" for _, s, _ in r["fails"]):
                out = os.path.join(wd, "out")
                if "cpp" in cfg["targets"]:
                    cd = os.path.join(out, "cpp")
                    for sub, on in (("ndjson", cfg["ndjson"]), ("hdf5", cfg["hdf5"])):
                        has = os.path.isdir(os.path.join(cd, sub))
                        has_protocols = any(p_ in files["model/model.yml"] for p_ in ("Pq", "Pz", "Pk: !protocol"))
                        if has and not on:
                            extra.append(("cpp", "options", "%s/ written although its option is false" % sub))
                        if on and has_protocols and not has:
                            extra.append(("cpp", "options", "%s/ not written although its option is true" % sub))
                    cml = os.path.join(cd, "CMakeLists.txt")
                    if os.path.exists(cml) != bool(cfg["cmake"]):
                        extra.append(("cpp", "options", "CMakeLists.txt %s although generateCMakeLists=%s" % ("written" if os.path.exists(cml) else "missing", cfg["cmake"])))
                    if os.path.exists(cml):
                        txt = open(cml).read()
                        for f in re.findall(r"[\w/]+\.cc", txt):
                            if not os.path.exists(os.path.join(cd, f)):
                                extra.append(("cpp", "cmake", "CMakeLists.txt names %s which was not generated" % f))
                        for dp, dn, fn in os.walk(cd):
                            if "yardl" in os.path.relpath(dp, cd).split(os.sep):
                                continue
                            for f in fn:
                                rel = os.path.relpath(os.path.join(dp, f), cd)
                                if f.endswith(".cc") and f not in ("mocks.cc", "factories.cc") and rel not in txt:
                                    extra.append(("cpp", "cmake", "generated source %s is not listed in CMakeLists.txt" % rel))
                        if ("HDF5" in txt or "hdf5" in txt) != bool(cfg["hdf5"]):
                            extra.append(("cpp", "cmake", "CMakeLists.txt HDF5 dependency does not follow generateHDF5=%s" % cfg["hdf5"]))
                        if ("nlohmann" in txt) != bool(cfg["ndjson"]):
                            extra.append(("cpp", "cmake", "CMakeLists.txt nlohmann_json dependency does not follow generateNDJson=%s" % cfg["ndjson"]))
                    inc = open(os.path.join(cd, "types.h")).read() if os.path.exists(os.path.join(cd, "types.h")) else ""
                    if cfg["override"] and "verif_ndarray.h" not in inc and "verif_ndarray.h" not in "".join(
                            open(os.path.join(dp, f), errors="replace").read() for dp, dn, fn in os.walk(cd) for f in fn if f.endswith(".h") and "detail" not in dp):
                        extra.append(("cpp", "options", "overrideArrayHeader set but the header is not included by the generated code"))
                if "python" in cfg["targets"]:
                    pd = os.path.join(out, "py", "bq")
                    if os.path.exists(os.path.join(pd, "ndjson.py")) and not cfg["pyndjson"]:
                        extra.append(("python", "options", "ndjson.py written although python.generateNDJson is false"))
                for t, d in (("cpp", "cpp"), ("python", "py"), ("matlab", "matlab"), ("json", "json")):
                    if t not in cfg["targets"] and os.path.exists(os.path.join(out, d)):
                        extra.append((t, "options", "output written for a target that is not configured"))
            r["fails"] += extra
        finally:
            shutil.rmtree(wd, ignore_errors=True)
        return mname, cfg, r
    with ThreadPoolExecutor(build.NCPU) as pool:
        results = list(pool.map(run, cases))
    accepted_yaml = {(mname, tuple(sorted((k, str(v)) for k, v in cfg.items() if k != "via_cli"))) for mname, cfg, r in results if r["accepted"] and not cfg.get("via_cli")}
    for mname, cfg, r in results:
        chk.count()
        if not r["accepted"]:
            if cfg.get("via_cli"):
                # the same options written in _package.yml are accepted: a -c override of a documented key must be too
                opts = ",".join("%s=%s" % (k, cfg[k]) for k in ("ndjson", "hdf5", "cmake", "override", "pyndjson") if k in cfg)
                chk.fail("options/%s/all/cli-override-rejected/%s" % (mname, opts), "model %s: `yardl generate %s` is rejected (%s) although the same settings are accepted in _package.yml" % (
                    mname, " ".join(cli_overrides(dict(DEFAULT_CFG, **cfg))), (r.get("stderr") or "").strip()[-200:]), {"part": "C", "model": mname, "cfg": cfg, "stderr": r.get("stderr")})
                continue
            if models[mname].get("__may_reject__"):
                chk.outcome(("C", mname, "rejected"))
                continue
            raise build.HarnessError("option model %s rejected: %s" % (mname, r.get("stderr")))
        label = "%s|%s|%s" % (mname, "+".join(cfg["targets"]), ",".join("%s=%s" % (k, cfg[k]) for k in sorted(cfg) if k != "targets"))
        chk.nontriv(("C", label))
        chk.outcome(("C", mname, bool(r["fails"])))
        by = {}
        for t, s, d in r["fails"]:
            by.setdefault((t, s.split(":")[0]), []).append((s, d))
        for (t, s), lst in sorted(by.items()):
            opts = ",".join("%s=%s" % (k, cfg[k]) for k in ("ndjson", "hdf5", "cmake", "override", "pyndjson", "via_cli") if k in cfg)
            chk.fail("options/%s/%s/%s/%s" % (mname, t, s, opts), "model %s, targets %s, options %s: %s %s: %s" % (mname, cfg["targets"], opts, t, lst[0][0], lst[0][1][:300]),
                     {"part": "C", "model": mname, "cfg": cfg, "failures": lst[:5]})
    chk.sample({"part": "C", "models": list(models), "cases": len(cases)})

# --------------------------------------------------------------------------------------------------------------- part D: init
def part_d(chk, quick):
    alpha = "aB1_-. :"
    L = 2 if quick else 3
    names = ["".join(p) for n in range(1, L + 1) for p in itertools.product(alpha, repeat=n)]
    names += ["null", "Null", "true", "yes", "no", "on", "off", "~", "class", "namespace", "std", "yardl", "numpy", "np", "types", "typing", "int", "float",
              "string", "binary", "ndjson", "hdf5", "protocols", "detail", "my-project", "my_project", "my project", "MyProject", "myProject", "a#b", "a: b",
              "{a}", "[a]", "'a'", '"a"', "a/b", "../a", "é", "日本", "datetime", "sys", "os", "test", "model", "mocks", "end", "function", "import"]
    names = [n for n in dict.fromkeys(names) if n.strip() != "" or True]
    slot = itertools.count()
    def run(name):
        wd = os.path.join(build.scratch(), "c08", "d_%d_%d" % (os.getpid(), next(slot)))
        shutil.rmtree(wd, ignore_errors=True)
        os.makedirs(wd)
        try:
            p = subprocess.run([build.yardl_bin(), "init", "--", name] if name.startswith("-") else [build.yardl_bin(), "init", name], cwd=wd, capture_output=True, text=True, errors="replace", env=build.run_env())
            if p.returncode != 0:
                return name, {"init": "rejected", "rc": p.returncode, "stderr": p.stderr[-300:]}
            md = os.path.join(wd, "model")
            if not os.path.exists(os.path.join(md, "_package.yml")):
                return name, {"init": "accepted", "fails": [("all", "init", "exit 0 but no model/_package.yml")]}
            man = open(os.path.join(md, "_package.yml"), errors="replace").read()
            ov = ["-c", "cpp.overrideArrayHeader=verif_ndarray.h"]
            rc, out, err = build.yardl(["validate"] + ov, cwd=md)
            if rc != 0:
                return name, {"init": "accepted", "manifest": man, "fails": [("all", "scaffold-rejected", err[-300:])]}
            rc, out, err = build.yardl(["generate"] + ov, cwd=md)
            if rc != 0:
                return name, {"init": "accepted", "manifest": man, "fails": [("all", "generate", err[-300:])]}
            # reuse evaluate's target checks: outputs are at ../cpp/generated, ../python, ../matlab
            os.makedirs(os.path.join(wd, "out"), exist_ok=True)
            os.rename(os.path.join(wd, "cpp", "generated"), os.path.join(wd, "out", "cpp"))
            os.rename(os.path.join(wd, "python"), os.path.join(wd, "out", "py"))
            os.rename(os.path.join(wd, "matlab"), os.path.join(wd, "out", "matlab"))
            fails = check_outputs(wd)
            return name, {"init": "accepted", "manifest": man, "fails": fails}
        finally:
            shutil.rmtree(wd, ignore_errors=True)
    with ThreadPoolExecutor(build.NCPU) as pool:
        results = list(pool.map(run, names))
    for name, r in results:
        chk.count()
        chk.outcome(("D", r["init"], bool(r.get("fails"))))
        if r["init"] != "accepted":
            continue
        chk.nontriv(("D", name))
        by = {}
        for t, s, d in r["fails"]:
            by.setdefault((t, s.split(":")[0]), []).append((s, d))
        for (t, s), lst in by.items():
            cls = init_class(name)
            chk.fail("init/%s/%s/%s" % (s, cls, t), "`yardl init %r` succeeds (namespace line %r) but %s: %s" % (
                name, (r.get("manifest") or "").split("\n")[0], lst[0][0], lst[0][1][:300]), {"part": "D", "name": name, "result": r})
    chk.sample({"part": "D", "names": names[:12], "count": len(names)})

def init_class(name):
    """Class of an init name for finding keys: the character classes it uses."""
    if re.match(r"^[A-Za-z][A-Za-z0-9]*$", name):
        return "word:" + name.lower()
    cls = []
    if re.match(r"^[0-9]", name):
        cls.append("leading-digit")
    if re.match(r"^[ _\-.:]", name) or re.search(r"[ _\-]$", name):
        cls.append("edge-separator")
    for ch, lab in ((".", "dot"), (":", "colon"), ("#", "hash"), ("/", "slash"), ("~", "tilde")):
        if ch in name:
            cls.append(lab)
    if re.search(r"[^\x00-\x7f]", name):
        cls.append("non-ascii")
    if re.search(r"[{}\[\]'\"]", name):
        cls.append("yaml-indicator")
    return "+".join(cls) or "separated-words"

def check_outputs(wd):
    """Target checks of evaluate() on an existing out/ tree."""
    cfg = dict(DEFAULT_CFG)
    fails = []
    outdir = os.path.join(wd, "out")
    cppdir = os.path.join(outdir, "cpp")
    srcs = []
    for dp, dn, fn in os.walk(cppdir):
        if os.path.relpath(dp, cppdir).split(os.sep)[0] == "yardl":
            continue
        srcs += [os.path.join(dp, f) for f in fn if f.endswith(".cc") and f not in ("mocks.cc", "factories.cc")]
    for s in sorted(srcs):
        p = subprocess.run(["g++", "-std=c++17", "-fsyntax-only", "-w", "-fmax-errors=5", "-I", SHIMS, "-I", SHIMS_H5, "-I", inc_dir(), "-I", cppdir, s], capture_output=True, text=True)
        if p.returncode != 0:
            errs = [l for l in p.stderr.split("\n") if "error" in l][:3]
            fails.append(("cpp", "compile:" + os.path.relpath(s, cppdir), " | ".join(e[-260:] for e in errs) or p.stderr[-400:]))
    pydir = os.path.join(outdir, "py")
    mods = []
    for pk in sorted(os.listdir(pydir)):
        if os.path.isdir(os.path.join(pydir, pk)):
            for f in sorted(os.listdir(os.path.join(pydir, pk))):
                if f.endswith(".py"):
                    mods.append(pk if f == "__init__.py" else pk + "." + f[:-3])
    mods.sort(key=lambda m: (m.count("."), m))
    code = "import sys, importlib\nsys.path.insert(0, %r)\nfor m in %r:\n    importlib.import_module(m)\n" % (pydir, mods)
    p = subprocess.run([build.PY, "-c", code], capture_output=True, text=True, cwd=wd, env=dict(os.environ, PYTHONDONTWRITEBYTECODE="1"))
    if p.returncode != 0:
        fails.append(("python", "import", " | ".join(p.stderr.strip().split("\n")[-3:])[-500:]))
    for d in matlab_lint(os.path.join(outdir, "matlab")):
        fails.append(("matlab", "lint", d))
    return fails

def chk_elapsed(chk):
    import time
    return time.time() - chk.t0


def main(tier, parts="ABCD"):
    quick = tier == "quick"
    chk = Check("C08", "exploration", tier,
                "A: every candidate word (keywords / standard macros / identifiers of the code generated for a baseline model, mapped back to "
                "model spellings) x every role it is a legal name for (13 member roles, 10 type roles, 2 namespace roles), packed 48 per package, "
                "failing packages reduced to minimal word sets by ddmin; B: all pairs of distinct legal names up to length 3 (quick) / 4 (thorough) "
                "over {a,b,A,B,1} in 9 scopes; C: target subsets x 2^4 C++ options x python.generateNDJson x {yaml, -c} x 7 model shapes; "
                "D: `yardl init` for every name up to length 2 (quick) / 3 (thorough) over {a,B,1,_,-,.,space,:} + 48 special words; non-trivial = "
                "an accepted package whose outputs were all compiled/imported/linted")
    build.yardl_bin()
    inc_dir()
    parts = os.environ.get("C08_PARTS", parts)
    if "B" in parts:
        part_b(chk, quick)
    if "C" in parts:
        part_c(chk, quick)
    if "D" in parts:
        part_d(chk, quick)
    if "A" in parts:
        if not quick:
            # part A of the thorough tier has thousands of packages; it stops taking new ones after the budget, reports
            # exhaustive:false and how many items were not reached (words are ordered simplest first)
            chk.set_deadline((chk_elapsed(chk)) + float(os.environ.get("VERIF_C08_BUDGET_S", "5400")))
        part_a(chk, quick)
    chk.assumptions += [
        "C++ is checked with g++ -std=c++17 -fsyntax-only against stand-ins for xtensor (overrideArrayHeader: verif_ndarray.h), Howard Hinnant's date and the "
        "HDF5 C++ API (declaration-only shims/cpp_h5/H5Cpp.h); configurations without overrideArrayHeader are generated but their C++ is not compiled",
        "no MATLAB or Octave in the sandbox: MATLAB output is checked by an own lint (file/classdef names, duplicate and reserved definitions)",
        "Python is imported with the tooling interpreter (numpy present); duplicate definitions inside a class body are found by an ast scan",
        "internal* options (mocks, translator, symlinks) are not documented options and are left at their defaults",
    ]
    return chk.finish()

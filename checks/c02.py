"""C02 NDJSON write/read round trip and documented JSON mapping (generated C++)."""
import build, shapes, roundtrip, rtengine
from evidence import Check

RULE = ("same shape/value space as C01 restricted to JSON-representable values (finite floats); emphasis set: every 2-case union "
        "over all JSON-kind representatives incl. date/time/datetime, enums, flags, generic parameters; records whose consecutive "
        "stream items differ in optional presence (forward and reversed item order). Executions: reference binary -> generated "
        "reader -> NDJSON writer (compared with the documented mapping) -> NDJSON reader -> binary writer (decoded by the reference "
        "decoder, must equal the written values) and -> NDJSON writer (fixed point); non-trivial = distinct (step, non-default value)")


def worker(chk, pkg, index):
    tier = chk.tier
    k = 1 if tier == "quick" else 2
    pr = roundtrip.prepare_one(pkg, index, want_cpp=True, want_py=False)
    try:
        if pr.gen_rc != 0:
            raise build.HarnessError("yardl rejected a packed package %s: %s" % (pkg.namespace, pr.gen_err[-600:]))
        if pr.cpp is None:
            first = list(pr.cpp_errors.values())[0]
            chk.fail("cpp-does-not-compile/%s" % pkg.namespace, "generated C++ of an accepted package does not compile: %s" % first[:500],
                     {"namespace": pkg.namespace, "errors": {k: v[:2000] for k, v in pr.cpp_errors.items()}})
            return
        eng = rtengine.Engine(chk, pr, k, max_exec=12 if tier == "quick" else 40, cap=60 if tier == "quick" else 400)
        if pkg.namespace.startswith("Tg"):
            eng.key_prefix = "same-types-different-tags/"
        eng.run(paths_binary=[], paths_json=[[("cpp", "b2n", 1), ("cpp", "n2b", 1)], [("cpp", "b2n", 3), ("cpp", "n2n", 1), ("cpp", "n2b", 3)]])
        if pkg.namespace.startswith("Pat"):
            pats = [p.name[1:].upper() for p in pkg.protocols]
            eng.run_custom({"Q" + pt.lower(): shapes.pattern_executions(pt) for pt in pats}, [[("cpp", "b2n", 1), ("cpp", "n2b", 1)], [("cpp", "b2n", 2), ("cpp", "n2n", 1), ("cpp", "n2b", 2)]])
        chk.extra["packages"] = 1
        chk.extra["protocols"] = len(pr.steps)
    finally:
        pr.close()


def main(tier):
    chk = Check("C02", "exploration", tier, RULE)
    d = 1 if tier == "quick" else 2
    sh = [s for s in shapes.shapes(d, tier) if not shapes.has_vector_of_bool(s)]
    packed = shapes.pack(sh, "Pk")
    packed.append((shapes.pattern_package(4 if tier == "quick" else 5)[0], []))
    # two unions over the same case types with different tags (the JSON mapping names the tag), in both definition orders
    from am import P, Union
    u_custom, u_default = Union(("i", P("int32")), ("f", P("float32"))), shapes.mk_union([P("int32"), P("float32")])
    u_custom3, u_default3 = Union(None, ("a", P("string")), ("b", P("date"))), shapes.mk_union([P("string"), P("date")], null=True)
    packed += shapes.pack([u_custom, u_default, u_custom3, u_default3], "Tga") + shapes.pack([u_default, u_custom, u_default3, u_custom3], "Tgb")
    from am import N
    packed += shapes.pack([N("GK", P("string")), N("GK", P("int32")), N("GK", P("uint8"))], "Gkm")
    chk.extra.update({"shapes": len(sh), "depth": d, "k": 1 if tier == "quick" else 2})
    roundtrip.run_packages(chk, packed, worker)
    chk.assumptions += ["arrays use the stand-in verif_ndarray.h (cpp.overrideArrayHeader); date text in C++ comes from the date.h stand-in: only its JSON kind (string) and round-trip identity are checked",
                        "the docs do not say how the null case of a tagged union is rendered: null and {\"null\": null} are both accepted",
                        "non-finite floats have no JSON mapping and are excluded"]
    return chk.finish()

"""C12 Output is a deterministic, idempotent function of the package.

The only nondeterminism inside one yardl execution is Go map iteration order. A rewriter (gotools/maprange, go/packages +
go/types) finds every `range` over a map in non-test code of the current tree and emits overlay copies in which the loop
iterates over verifmo.Keys(site, m): ascending, descending or rotated per site from VERIF_MAPORDER. The explorer then
enumerates iteration-order schedules (deviation-bounded in quick, all ascending/descending assignments of the reached sites
in thorough) and requires byte-identical stdout, stderr, exit status and output trees; plus idempotence of a second run."""
import hashlib, itertools, json, os, shutil, subprocess, sys
from concurrent.futures import ThreadPoolExecutor

import build
from evidence import Check

GOTOOLS = os.path.join(build.VERIF, "gotools")


def build_instrumented():
    sc = build.scratch()
    tool = os.path.join(sc, "bin", "maprange")
    os.makedirs(os.path.dirname(tool), exist_ok=True)
    build.run(["go", "build", "-o", tool, "./maprange"], cwd=GOTOOLS, env=build.goenv(), check=True)
    outdir = os.path.join(sc, "maprange")
    p = build.run([tool, build.TOOLING, outdir], cwd=build.TOOLING, env=build.goenv(), check=True)
    info = json.loads(p.stdout.decode())
    rep = dict(info["overlay"])
    rep[os.path.join(build.TOOLING, "internal/verifmo/verifmo.go")] = os.path.join(build.VERIF, "goharness/verifmo/verifmo.go")
    ov = os.path.join(sc, "overlay-maporder.json")
    json.dump({"Replace": rep}, open(ov, "w"))
    exe = os.path.join(sc, "bin", "yardl-maporder")
    build.run(["go", "build", "-overlay", ov, "-o", exe, "./cmd/yardl"], cwd=build.TOOLING, env=build.goenv(), check=True)
    return exe, info["sites"]


# ---------------------------------------------------------------------------------------------- test packages
OUT = "cpp:\n  sourcesOutputDir: ../out/cpp\npython:\n  outputDir: ../out/py\njson:\n  outputDir: ../out/json\nmatlab:\n  outputDir: ../out/matlab\n"

V0 = """Hdr: !record
  fields:
    a: int
    b: string
Rec: !record
  fields:
    x: int
    y: float
Other: !record
  fields:
    p: int
Al: Rec
P1: !protocol
  sequence:
    h: Hdr
    n: int
    s: !stream
      items: Rec
    u: [int, string]
P2: !protocol
  sequence:
    a: int
    shade: Shade
    perm: Perm
Shade: !enum
  values: {black: 1, grey: 2, white: 3, red: 4, green: 5, blue: 6, cyan: 7}
Perm: !flags
  values: {r: 1, w: 2, x: 4, s: 8, t: 16, u: 32}
Gone1: !protocol
  sequence:
    a: int
Gone2: !protocol
  sequence:
    a: int
Gone3: !protocol
  sequence:
    a: int
Gone4: !protocol
  sequence:
    a: int
"""
V1 = V0.replace("    n: int\n", "    n: long\n").replace("    y: float\n", "    y: double\n    z: int?\n")
CUR = """Hdr: !record
  fields:
    a: long
    b: string
    c: int?
Rec: !record
  fields:
    x: long
    y: double
    z: int?
    w: string
Other: !record
  fields:
    p: long
    q: float
Al: Rec
E: !enum
  values: [a, b, c]
U2: [int, string]
U3: [int, string, float]
U4: [int, string, float, Rec]
U5: [null, int, string, float, Rec, Hdr]
G<T>: !record
  fields:
    t: T
    u: [T, string]
P1: !protocol
  sequence:
    h: Hdr
    n: double
    s: !stream
      items: Rec
    u: [int, string, float]
    extra: !stream
      items: U4
    extra2: U5?
    g: G<int>?
    g2: G<Other>?
P2: !protocol
  sequence:
    a: long
    shade: Shade
    perm: Perm
Shade: !enum
  values: {black: 1, grey: 2, white: 3, red: 4, green: 5, blue: 6, cyan: 7}
Perm: !flags
  values: {r: 1, w: 2, x: 4, s: 8, t: 16, u: 32}
# a computed field that needs several dimension-lookup helpers (dimension name not known statically)
Dims: !record
  fields:
    a: int[x, y]
    b: float[p, q]
    c: double[u, v, w]
    d: long[k, l]
    name: string
  computedFields:
    di: dimensionIndex(a, name) + dimensionIndex(b, name) + dimensionIndex(c, name) + dimensionIndex(d, name)
    sz: size(a, name) + size(b, name) + size(c, name)
AcquisitionHeaderRecordNumberOne: !record
  fields:
    a: int
WaveformSamplesRecordNumberTwo: !record
  fields:
    b: int
ImageReconstructionRecordThree: !record
  fields:
    c: int
P3: !protocol
  sequence:
    dims: Dims
    long: !stream
      items: [AcquisitionHeaderRecordNumberOne, WaveformSamplesRecordNumberTwo, ImageReconstructionRecordThree]
"""
BAD_MODEL = """A: Missing1
B: Missing2
C: !record
  fields:
    x: Missing3
    y: Missing4
D<T>: int
E<T, U>: !record
  fields:
    a: int
F<V>: string
En: !enum
  values:
    a: 1
    b: 1
    c: 1
    d: 2
    e: 2
U: !union
  a: int
  a: string
U2: [int, int, string, string]
R: !record
  fields:
    dup: int
    dup: float
    Bad: int
    AlsoBad: int
  computedFields:
    c1: nope1
    c2: nope2
    c3: nope3
badName1: int
badName2: int
"""
BAD_ENUMS = ("Shade: !enum\n  values: {black: 11, grey: 12, white: 13, red: 14}\nPerm: !flags\n  values: {r: 2, w: 4, x: 1}\n")
BAD_EVO = CUR.replace("Shade: !enum\n  values: {black: 1, grey: 2, white: 3, red: 4, green: 5, blue: 6, cyan: 7}\nPerm: !flags\n  values: {r: 1, w: 2, x: 4, s: 8, t: 16, u: 32}\n", BAD_ENUMS).replace("    h: Hdr\n    n: double\n", "    n: string*\n    h: Hdr\n").replace("E: !enum\n  values: [a, b, c]\n", "").replace(
    "P2: !protocol\n  sequence:\n    a: long\n", "P2: !protocol\n  sequence:\n    a: int*\n    b: int\n")


def packages():
    pk = {}
    pk["valid-two-versions"] = ({"cur/_package.yml": "namespace: Det\nversions:\n  v0: ../v0\n  v1: ../v1\n" + OUT, "cur/m.yml": CUR,
                                 "v0/_package.yml": "namespace: Det\n", "v0/m.yml": V0,
                                 "v1/_package.yml": "namespace: Det\n", "v1/m.yml": V1}, [])
    pk["many-errors"] = ({"cur/_package.yml": "namespace: Det\n" + OUT, "cur/a.yml": BAD_MODEL, "cur/b.yml": "Z1: Nope1\nZ2: Nope2\nzz: int\n"}, [])
    pk["bad-evolution"] = ({"cur/_package.yml": "namespace: Det\nversions:\n  v0: ../v0\n  v1: ../v1\n" + OUT, "cur/m.yml": BAD_EVO,
                            "v0/_package.yml": "namespace: Det\n", "v0/m.yml": V0, "v1/_package.yml": "namespace: Det\n", "v1/m.yml": V1}, [])
    pk["bad-config-keys"] = ({"cur/_package.yml": "namespace: Det\n" + OUT, "cur/m.yml": "X: int\n"},
                             ["-c", "cpp.nope1=1", "-c", "python.nope2=2", "-c", "json.nope3=3", "-c", "zzz=1", "-c", "aaa=2"])
    pk["valid-config-overrides"] = ({"cur/_package.yml": "namespace: Det\n" + OUT, "cur/m.yml": CUR},
                                    ["-c", "cpp.generateHDF5=false", "-c", "python.generateNDJson=false", "-c", "cpp.generateCMakeLists=false"])
    # many imported namespaces, several reached along two paths (every collection of namespaces / references has >= 3 entries)
    order = ["I1", "I2", "I3", "I4", "I5"]
    imps = {}
    for i, (n, deps) in enumerate((("I1", ()), ("I2", ("I1",)), ("I3", ("I1", "I2")), ("I4", ()), ("I5", ("I4", "I1")))):
        imps["%s/_package.yml" % n.lower()] = "namespace: %s\n" % n + ("imports:\n" + "".join("  - ../%s\n" % d.lower() for d in deps) if deps else "")
        body = "T%d: !record\n  fields:\n    v: int\n" % i
        for d in deps:
            body += "U%s%d: !record\n  fields:\n    r: %s.T%d\n" % (d, i, d, order.index(d))
        imps["%s/m.yml" % n.lower()] = body
    cur = "namespace: Det\nimports:\n  - ../i5\n  - ../i3\n  - ../i2\n  - ../i4\n  - ../i1\n" + OUT
    model = ("M: !record\n  fields:\n    a: I1.T0\n    b: I2.T1\n    c: I3.T2\n    d: I4.T3\n    e: I5.T4\n    f: I3.UI12\n"
             "Pi: !protocol\n  sequence:\n    m: M\n    s: !stream\n      items: I5.UI44\n")
    # a named union that contains another union: the MATLAB backend names both classes after the alias
    pk["named-union-nesting-union"] = ({"cur/_package.yml": "namespace: Det\n" + OUT, "cur/m.yml":
                                        "A: !union\n  i: int\n  v: !vector\n    items: [float, string]\nPn: !protocol\n  sequence:\n    x: A\n"}, [])
    pk["many-imports"] = (dict(imps, **{"cur/_package.yml": cur, "cur/m.yml": model}), [])
    return pk


def snapshot(root):
    out = {}
    for dp, dn, fn in os.walk(root):
        for f in fn:
            p = os.path.join(dp, f)
            st = os.lstat(p)
            with open(p, "rb") as fh:
                h = hashlib.sha256(fh.read()).hexdigest()
            out[os.path.relpath(p, root)] = (h, st.st_ino, st.st_mtime_ns)
    return out


def run_one(exe, pkgdir, args, order, log=None):
    env = build.run_env()
    env["VERIF_MAPORDER"] = order
    if log:
        env["VERIF_MAPORDER_LOG"] = log
    p = subprocess.run([exe, "generate"] + args, cwd=os.path.join(pkgdir, "cur"), env=env, stdout=subprocess.PIPE, stderr=subprocess.PIPE, timeout=120)
    return p.returncode, p.stdout.decode(errors="replace"), p.stderr.decode(errors="replace")


def observe(exe, name, files, args, order, workdir, want_log=False):
    """Fresh tree at a fixed path (so printed paths are equal), one generate; returns the observation."""
    shutil.rmtree(workdir, ignore_errors=True)
    build.write_tree(workdir, files)
    log = os.path.join(workdir, "sites.log") if want_log else None
    rc, out, err = run_one(exe, workdir, args, order, log)
    snap = snapshot(os.path.join(workdir, "out")) if os.path.isdir(os.path.join(workdir, "out")) else {}
    reached = sorted({int(x) for x in open(log).read().split()}) if log and os.path.exists(log) else []
    return {"rc": rc, "stdout": out, "stderr": err, "files": {k: v[0] for k, v in snap.items()}}, reached


def main(tier):
    quick = tier == "quick"
    chk = Check("C12", "exploration", tier,
                "packages (valid with two previous versions and many changed definitions/steps/removed protocols/unions of arity 2-6; "
                "many simultaneous errors in two files; incompatible evolution; invalid and valid -c overrides) x map-iteration-order "
                "schedules over every `range`-over-map site found in the current tree: all-ascending, all-descending, each site "
                "individually descending / rotated (quick); every ascending/descending assignment of the sites reached by that package "
                "(thorough); non-trivial = schedules that deviate from all-ascending at a site the package actually reaches with >= 2 keys")
    plain = build.yardl_bin()
    exe, sites = build_instrumented()
    ids = [s["id"] for s in sites]
    chk.extra["sites"] = ["%d %s:%d %s" % (s["id"], os.path.relpath(s["file"], build.TOOLING), s["line"], s["func"]) for s in sites]
    base = os.path.join(build.scratch(), "c12")
    with ThreadPoolExecutor(build.NCPU) as ex:
        for name, (files, args) in packages().items():
            # conformance of the instrumented binary: all-ascending must reproduce the plain binary where that is stable
            plain_obs = [observe(plain, name, files, args, "", os.path.join(base, name, "w"))[0] for _ in range(3)]
            ref, reached = observe(exe, name, files, args, "", os.path.join(base, name, "w"), want_log=True)
            stable = all(o == plain_obs[0] for o in plain_obs)
            if stable and plain_obs[0] != ref:
                raise build.HarnessError("instrumented binary (all-ascending) differs from the plain binary on %s" % name)
            chk.extra.setdefault("reached_sites", {})[name] = reached
            scheds = [("all-desc", ",".join("%d:d" % i for i in ids))]
            for i in ids:
                scheds.append(("site%d-desc" % i, "%d:d" % i))
                scheds.append(("site%d-rot1" % i, "%d:r1" % i))
                if not quick:
                    scheds.append(("site%d-rot2" % i, "%d:r2" % i))
            if not quick and reached:
                for bits in itertools.product("ad", repeat=len(reached)):
                    if "d" in bits:
                        scheds.append(("asg-" + "".join(bits), ",".join("%d:%s" % (s, b) for s, b in zip(reached, bits))))
            # printed paths contain the working directory: every slot runs in its own copy and the path is normalised
            def job(slot, sname, order):
                wd = os.path.join(base, name, "s%d" % slot, "w")
                obs, _ = observe(exe, name, files, args, order, wd)
                norm = lambda s: s.replace(os.path.join(base, name, "s%d" % slot), os.path.join(base, name))
                obs["stdout"], obs["stderr"] = norm(obs["stdout"]), norm(obs["stderr"])
                return sname, order, obs
            results = []
            slots = build.NCPU
            chunks = [scheds[i::slots] for i in range(slots)]
            def slot_runner(slot):
                out = []
                for sname, order in chunks[slot]:
                    out.append(job(slot, sname, order))
                return out
            for part in ex.map(slot_runner, range(slots)):
                results += part
            ref_n = dict(ref)
            for sname, order, obs in results:
                chk.count()
                devi = {int(x.split(":")[0]) for x in order.split(",") if x}
                if devi & set(reached):
                    chk.nontriv((name, sname))
                chk.outcome((name, obs["rc"]))
                diffs = []
                for k in ("rc", "stdout", "stderr"):
                    if obs[k] != ref_n[k]:
                        diffs.append(k)
                if obs["files"] != ref_n["files"]:
                    changed = sorted(f for f in set(obs["files"]) | set(ref_n["files"]) if obs["files"].get(f) != ref_n["files"].get(f))
                    diffs.append("files:" + ",".join(changed[:4]))
                if diffs:
                    site_names = ";".join(chk.extra["sites"][i] for i in sorted(devi)[:3]) if len(devi) <= 3 else "%d sites" % len(devi)
                    key = "order-dependent/%s/%s" % (name, "+".join(d.split(":")[0] for d in diffs))
                    first = next((l for l in zip(obs["stderr"].splitlines(), ref_n["stderr"].splitlines()) if l[0] != l[1]), None)
                    chk.fail(key, "package %s, schedule %s (%s): %s differ from the all-ascending run%s" % (name, sname, site_names, diffs, (": %r vs %r" % first) if first else ""),
                             {"package": name, "files": files, "args": args, "VERIF_MAPORDER": order, "sites": chk.extra["sites"], "diffs": diffs,
                              "ref": {k: ref_n[k] for k in ("rc", "stdout", "stderr")}, "obs": {k: obs[k] for k in ("rc", "stdout", "stderr")}})
            chk.sample({"package": name, "schedules": len(scheds), "reached_sites": reached, "rc": ref["rc"], "outputs": len(ref["files"])})
            # idempotence + plain-binary repetition (cross-check only for repetition; idempotence decides)
            wd = os.path.join(base, name, "idem")
            shutil.rmtree(wd, ignore_errors=True)
            build.write_tree(wd, files)
            run_one(plain, wd, args, "")
            s1 = snapshot(os.path.join(wd, "out")) if os.path.isdir(os.path.join(wd, "out")) else {}
            rc2 = run_one(plain, wd, args, "")
            s2 = snapshot(os.path.join(wd, "out")) if os.path.isdir(os.path.join(wd, "out")) else {}
            chk.count()
            if s1 != s2:
                changed = sorted(f for f in set(s1) | set(s2) if s1.get(f) != s2.get(f))
                chk.fail("not-idempotent/%s" % name, "second generate of the unchanged package %s touched %s" % (name, changed[:6]), {"package": name, "files": files, "args": args, "changed": changed})
            if not stable:
                chk.fail("plain-binary-unstable/%s" % name, "3 runs of the unmodified binary on %s gave different results" % name, {"package": name, "files": files, "args": args})
    chk.assumptions += ["map iteration inside third-party modules (koanf / mapstructure reflective walks) is not instrumented; encoding/json sorts keys and yaml.v3 preserves document order",
                        "sites keyed by pointers get address order and its reverse rather than a meaningful sorted order",
                        "order nondeterminism is enumerated up to ascending / descending / rotation per site, not all permutations"]
    return chk.finish()

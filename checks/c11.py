"""C11 Generation is all-or-nothing with respect to validation.

Fault locations x output configurations x initial states: invalid packages (one error located in the main package, an imported
package, an import of an import, a previous version - first or last listed -, the evolution check only, or the manifest; YAML
syntax / parse / semantic kinds) are run through the real `yardl generate` for every output configuration and initial state of
the output directories; exit status must be non-zero and a snapshot (path, type, size, sha256, mtime_ns, inode) of every
configured output directory must be unchanged."""
import copy, hashlib, itertools, json, os, shutil
from concurrent.futures import ThreadPoolExecutor

import build
import c09
from evidence import Check

TARGET_YAML = {
    "cpp": "cpp:\n  sourcesOutputDir: %s/cpp\n  generateCMakeLists: true\n",
    "python": "python:\n  outputDir: %s/py\n",
    "json": "json:\n  outputDir: %s/json\n",
    "matlab": "matlab:\n  outputDir: %s/matlab\n",
}


def invalid_packages():
    """(label, kind, location, files-mutator) - each returns a file tree (relative paths) with exactly one error."""
    out = []
    base = c09.render()
    # add a second previous version (identical to the current main model) so that "first of two versions" exists
    base["main/_package.yml"] = "namespace: Main\nimports:\n  - ../imp\nversions:\n  v0: ../v0\n  v1: ../v1\n"
    base["v1/_package.yml"] = "namespace: Main\nimports:\n  - ../imp\n"
    base["v1/a.yml"] = base["main/a.yml"]
    base["v1/b.yml"] = base["main/b.yml"]

    def variant(label, kind, loc, edit):
        f = dict(base)
        edit(f)
        out.append((label, kind, loc, f))

    locs = {"main/a.yml": "main-package", "main/b.yml": "main-package-second-file", "imp/model.yml": "imported-package",
            "imp2/model.yml": "import-of-import", "v0/a.yml": "previous-version-first", "v1/a.yml": "previous-version-last"}
    for path, loc in locs.items():
        variant("yaml-syntax/" + loc, "yaml-syntax", loc, lambda f, p=path: f.__setitem__(p, f[p] + "Broken: [unclosed\n  : :\n"))
        variant("parse-error/" + loc, "parse", loc, lambda f, p=path: f.__setitem__(p, f[p] + "Bad: !vector\n  items: int\n  length: -1\n"))
        variant("unknown-type/" + loc, "semantic", loc, lambda f, p=path: f.__setitem__(p, f[p] + "Bad: NoSuchType\n"))
        variant("duplicate-field/" + loc, "semantic", loc, lambda f, p=path: f.__setitem__(p, f[p] + "Bad: !record\n  fields:\n    a: int\n    a: int\n"))
        variant("unused-generic/" + loc, "semantic", loc, lambda f, p=path: f.__setitem__(p, f[p] + "Bad<T>: int\n"))
        variant("computed-field-type/" + loc, "semantic", loc, lambda f, p=path: f.__setitem__(p, f[p] + "Bad: !record\n  fields:\n    s: string\n  computedFields:\n    c: s + 1\n"))
        # naming rules of every kind of declaration (each is checked by its own validation pass)
        variant("duplicate-step/" + loc, "semantic", loc, lambda f, p=path: f.__setitem__(p, f[p] + "BadP: !protocol\n  sequence:\n    a: int\n    a: int\n"))
        variant("step-name-not-camel-case/" + loc, "semantic", loc, lambda f, p=path: f.__setitem__(p, f[p] + "BadP: !protocol\n  sequence:\n    Not_camel: int\n"))
        variant("field-name-not-camel-case/" + loc, "semantic", loc, lambda f, p=path: f.__setitem__(p, f[p] + "Bad: !record\n  fields:\n    Bad_name: int\n"))
        variant("type-name-not-pascal-case/" + loc, "semantic", loc, lambda f, p=path: f.__setitem__(p, f[p] + "bad_type: int\n"))
        variant("duplicate-enum-value/" + loc, "semantic", loc, lambda f, p=path: f.__setitem__(p, f[p] + "BadE: !enum\n  values:\n    a: 1\n    b: 1\n"))
        variant("stream-in-record/" + loc, "semantic", loc, lambda f, p=path: f.__setitem__(p, f[p] + "Bad: !record\n  fields:\n    s: !stream\n      items: int\n"))
        variant("union-with-duplicate-case/" + loc, "semantic", loc, lambda f, p=path: f.__setitem__(p, f[p] + "Bad: [int, int]\n"))
        variant("map-key-not-primitive/" + loc, "semantic", loc, lambda f, p=path: f.__setitem__(p, f[p] + "BadK: !record\n  fields:\n    k: int\nBad: BadK->int\n"))
    # evolution check only: the models are all valid, the change against one version is incompatible
    variant("evolution/incompatible-with-first-version", "evolution", "evolution-first-version",
            lambda f: f.__setitem__("v0/a.yml", f["v0/a.yml"].replace("    first: int\n", "    first: int*\n")))
    variant("evolution/incompatible-with-last-version", "evolution", "evolution-last-version",
            lambda f: f.__setitem__("v1/b.yml", f["v1/b.yml"].replace("    first: int\n", "    first: string*\n")))
    variant("evolution/incompatible-with-both", "evolution", "evolution-both",
            lambda f: f.__setitem__("main/b.yml", f["main/b.yml"].replace("    first: int\n", "    first: float[]\n")))
    variant("evolution/duplicate-version-label", "manifest", "manifest",
            lambda f: f.__setitem__("main/_package.yml", "namespace: Main\nimports:\n  - ../imp\nversions:\n  v0: ../v0\n  v0: ../v1\n"))
    # manifest
    variant("manifest/bad-namespace", "manifest", "manifest", lambda f: f.__setitem__("main/_package.yml", f["main/_package.yml"].replace("namespace: Main", "namespace: main_bad")))
    variant("manifest/unknown-field", "manifest", "manifest", lambda f: f.__setitem__("main/_package.yml", f["main/_package.yml"] + "bogus: 1\n"))
    variant("manifest/missing-import-dir", "manifest", "manifest", lambda f: f.__setitem__("main/_package.yml", f["main/_package.yml"].replace("../imp\n", "../imp\n  - ../nowhere\n")))
    variant("manifest/missing-version-dir", "manifest", "manifest", lambda f: f.__setitem__("main/_package.yml", f["main/_package.yml"].replace("v1: ../v1", "v1: ../nowhere")))
    variant("manifest/import-yaml-syntax", "yaml-syntax", "imported-manifest", lambda f: f.__setitem__("imp/_package.yml", "namespace: [Imp\n"))
    # the same errors in packages whose directory name starts with a dot (snapshots of released versions, vendored imports)
    def hide(f, d):
        for k in list(f):
            if k.startswith(d + "/"):
                f[".store/" + k] = f.pop(k)
        for k in list(f):
            if k.endswith("_package.yml"):
                f[k] = f[k].replace("../%s\n" % d, ("../.store/%s\n" if not k.startswith(".store/") else "../%s\n") % d)
    for d, loc in (("v0", "previous-version-in-hidden-directory"), ("imp", "imported-package-in-hidden-directory"), ("imp2", "import-of-import-in-hidden-directory")):
        path = {"v0": ".store/v0/a.yml", "imp": ".store/imp/model.yml", "imp2": ".store/imp2/model.yml"}[d]
        for lbl, kind, text in (("yaml-syntax", "yaml-syntax", "Broken: [unclosed\n  : :\n"), ("unknown-type", "semantic", "Bad: NoSuchType\n"),
                                ("duplicate-field", "semantic", "Bad: !record\n  fields:\n    a: int\n    a: int\n")):
            def ed(f, d=d, path=path, text=text):
                if d == "imp2":
                    hide(f, "imp")      # keep the relative import ../imp2 of imp valid: both live in the store
                hide(f, d)
                if d == "imp":
                    f[".store/imp/_package.yml"] = f[".store/imp/_package.yml"].replace("../imp2", "../../imp2")
                if d == "v0":
                    f[".store/v0/_package.yml"] = f[".store/v0/_package.yml"].replace("../imp", "../../imp")
                f[path] = f[path] + text
            variant("%s/%s" % (lbl, loc), kind, loc, ed)
    variant("evolution/incompatible-with-version-in-hidden-directory", "evolution", "evolution-hidden-version",
            lambda f: (hide(f, "v0"), f.__setitem__(".store/v0/_package.yml", f[".store/v0/_package.yml"].replace("../imp", "../../imp")),
                       f.__setitem__(".store/v0/a.yml", f[".store/v0/a.yml"].replace("    first: int\n", "    first: int*\n"))))
    # so many errors that their number is a multiple of 256 (the exit status is not a counter)
    many = lambda n: "Many: !record\n  fields:\n" + "".join("    Bad_%d: int\n" % i for i in range(n))
    for n in (255, 256, 257, 512):
        variant("many-errors-%d/main-package" % n, "semantic", "main-package", lambda f, n=n: f.__setitem__("main/a.yml", f["main/a.yml"] + many(n)))
    variant("many-errors-256/imported-package", "semantic", "imported-package", lambda f: f.__setitem__("imp/model.yml", f["imp/model.yml"] + many(256)))
    variant("many-errors-256/previous-version", "semantic", "previous-version-first", lambda f: f.__setitem__("v0/a.yml", f["v0/a.yml"] + many(256)))
    variant("manifest/import-cycle", "manifest", "imported-manifest", lambda f: f.__setitem__("imp2/_package.yml", "namespace: Imp2\nimports:\n  - ../imp\n"))
    return base, out


def snapshot(root):
    out = {}
    for dp, dn, fn in os.walk(root):
        for d in dn:
            p = os.path.join(dp, d)
            st = os.lstat(p)
            out[os.path.relpath(p, root) + "/"] = ("dir", st.st_ino)
        for f in fn:
            p = os.path.join(dp, f)
            st = os.lstat(p)
            with open(p, "rb") as fh:
                h = hashlib.sha256(fh.read()).hexdigest()
            out[os.path.relpath(p, root)] = ("file", st.st_size, h, st.st_mtime_ns, st.st_ino)
    return out


def run_case(case):
    label, kind, loc, files, base_files, targets, outloc, init, overrides, slot = case
    wd = os.path.join(build.scratch(), "c11", "s%d" % slot)
    shutil.rmtree(wd, ignore_errors=True)
    outroot = "../out" if outloc == "outside" else "generated"
    conf = "".join(TARGET_YAML[t] % outroot for t in targets)

    def with_conf(fs):
        fs = dict(fs)
        fs["main/_package.yml"] = fs["main/_package.yml"] + conf
        return fs
    outabs = os.path.normpath(os.path.join(wd, "main", outroot))
    if init == "populated":
        build.write_tree(wd, with_conf(base_files))
        populate_with = [] if any("disabled" in x or x.endswith("=") for x in overrides) else overrides     # the earlier successful run had its targets on
        rc, out, err = build.yardl(["generate"] + populate_with, cwd=os.path.join(wd, "main"))
        if rc != 0:
            return case[:3], {"harness": "valid base does not generate: " + err[-400:]}
        with open(os.path.join(outabs, "stale-extra-file.txt"), "w") as f:
            f.write("left over from an earlier run\n")
        # replace the model tree by the invalid one, keep outputs
        for k in list(base_files):
            os.remove(os.path.join(wd, k))
    elif init == "empty":
        for t in targets:
            os.makedirs(os.path.join(outabs, {"cpp": "cpp", "python": "py", "json": "json", "matlab": "matlab"}[t]), exist_ok=True)
    build.write_tree(wd, with_conf(files))
    before = snapshot(outabs) if os.path.isdir(outabs) else {}
    existed = os.path.isdir(outabs)
    rc, out, err = build.yardl(["generate"] + overrides, cwd=os.path.join(wd, "main"))
    after = snapshot(outabs) if os.path.isdir(outabs) else {}
    changed = sorted(k for k in set(before) | set(after) if before.get(k) != after.get(k))
    created_root = (not existed) and os.path.isdir(outabs)
    return case[:3], {"rc": rc, "stderr": err[-400:], "changed": changed[:12], "nchanged": len(changed), "created_root": created_root}


def main(tier):
    quick = tier == "quick"
    chk = Check("C11", "fault_enumeration", tier,
                "46 invalid package trees (one error each: YAML syntax / parse / 4 semantic kinds in the main package (2 files), imported "
                "package, import of import, first and last previous version; incompatible evolution against the first / last / both versions; "
                "manifest errors) x output configurations (target subsets, output inside/outside the package directory, -c overrides) x initial "
                "state of the output directories (absent, empty, populated by a previous successful run plus a stale file); non-trivial = every "
                "run (each must fail and leave the snapshot untouched); the valid base must generate")
    build.yardl_bin()
    base, invalid = invalid_packages()
    subsets = [("cpp",), ("python",), ("json",), ("matlab",), ("cpp", "python", "json", "matlab"), ()]
    if not quick:
        subsets = [s for r in range(1, 5) for s in itertools.combinations(("cpp", "python", "json", "matlab"), r)]
    cases = []
    slot = 0
    for label, kind, loc, files in invalid:
        for targets in subsets:
            for outloc in (("outside",) if (quick and len(targets) == 1) or not targets else ("outside", "inside")):
                for init in (("absent",) if not targets else ("absent", "empty", "populated")):
                    ovs = [[]]
                    if len(targets) == 4 and init != "empty":
                        ovs.append(["-c", "cpp.generateHDF5=false", "-c", "python.generateNDJson=false"])
                        # every configured target switched off on the command line: nothing to write, the package is still invalid
                        ovs.append(["-c", "cpp.disabled=true", "-c", "python.disabled=true", "-c", "json.disabled=true", "-c", "matlab.disabled=true"])
                    for ov in ovs:
                        cases.append((label, kind, loc, files, base, targets, outloc, init, ov, slot))
                        slot += 1
    # configuration errors: a target section that names no directory (in the manifest, or emptied with -c), next to valid targets that
    # are generated before it; the models are valid, nothing may be written
    all4 = ("cpp", "python", "json", "matlab")
    empties = {"json": "json:\n  outputDir: \"\"\n", "cpp": "cpp:\n  generateCMakeLists: false\n", "python": "python:\n  generateNDJson: false\n", "matlab": "matlab:\n  outputDir:\n"}
    keyname = {"json": "json.outputDir", "cpp": "cpp.sourcesOutputDir", "python": "python.outputDir", "matlab": "matlab.outputDir"}
    for t in all4:
        others = tuple(x for x in all4 if x != t)
        bad = dict(base)
        bad["main/_package.yml"] = base["main/_package.yml"] + empties[t]
        for init in ("absent", "populated"):
            cases.append(("config/%s-section-without-directory" % t, "manifest", "manifest", bad, base, others, "outside", init, [], slot)); slot += 1
            cases.append(("config/%s-directory-emptied-by-override" % t, "manifest", "command-line", base, base, all4, "outside", init, ["-c", keyname[t] + "="], slot)); slot += 1
    # valid but unusual models (names at the length limits of the targets, a union whose derived class name is very long, many fields):
    # either everything is generated, or - if a generator gives up on one of them - nothing is
    long64 = "L" + "o" * 62 + "g"
    stress = {
        "long-union-class-name": "AcquisitionHeaderRecordNumberOne: !record\n  fields:\n    a: int\nWaveformSamplesRecordNumberTwo: !record\n  fields:\n    b: int\n"
                                 "ImageReconstructionRecordThree: !record\n  fields:\n    c: int\nNoiseMeasurementRecordNumberFour: !record\n  fields:\n    d: int\n"
                                 "St: !protocol\n  sequence:\n    s: !stream\n      items: [AcquisitionHeaderRecordNumberOne, WaveformSamplesRecordNumberTwo, ImageReconstructionRecordThree, NoiseMeasurementRecordNumberFour]\n",
        "type-name-64-characters": "%s: !record\n  fields:\n    a: int\nSt: !protocol\n  sequence:\n    s: %s\n" % (long64, long64),
        "protocol-name-60-characters": "P%s: !protocol\n  sequence:\n    s: int\n" % ("r" * 59),
        "field-and-step-names-64-characters": "Rs: !record\n  fields:\n    f%s: int\nSt: !protocol\n  sequence:\n    s%s: Rs\n" % ("x" * 63, "y" * 63),
        "record-with-400-fields": "Wide: !record\n  fields:\n" + "".join("    f%d: int\n" % i for i in range(400)) + "St: !protocol\n  sequence:\n    s: Wide\n",
        "enum-with-300-values": "Big: !enum\n  values: [%s]\nSt: !protocol\n  sequence:\n    s: Big\n" % ", ".join("v%d" % i for i in range(300)),
        "nesting-depth-8": "St: !protocol\n  sequence:\n    s: %s\n" % ("int" + "*" * 8),
    }
    for name, model in stress.items():
        fs = {"main/_package.yml": "namespace: Main\n", "main/m.yml": model}
        for init in ("absent", "populated"):
            cases.append(("valid-stress/" + name, "valid", "-", fs, {"main/_package.yml": "namespace: Main\n", "main/m.yml": "X: int\n"}, all4, "outside", init, [], slot)); slot += 1
    # guard: the valid base generates for every configuration
    for targets in subsets:
        r = run_case(("BASE", "valid", "-", base, base, targets, "outside", "absent", [], 10**6))[1]
        if r.get("rc") != 0:
            raise build.HarnessError("valid base package does not generate for %s: %s" % (targets, r))
    with ThreadPoolExecutor(build.NCPU) as ex:
        results = list(ex.map(run_case, cases))
    for (label, kind, loc), r in results:
        if "harness" in r:
            raise build.HarnessError(r["harness"])
        chk.count()
        chk.nontriv((label, len(chk.nontrivial)))
        chk.outcome((kind, r["rc"]))
        if kind == "valid":
            # a model yardl accepts: success, or a failure that leaves no trace
            if r["rc"] != 0 and (r["nchanged"] or r["created_root"]):
                chk.fail("output-touched-despite-error/%s" % label, "yardl generate failed on an accepted model (%s: %s) after it had started writing: %s" % (
                    label, r["stderr"][-200:], r["changed"][:6]), {"label": label, "result": r})
            continue
        if r["rc"] not in (0, 1):
            chk.fail("crash/%s" % label, "yardl generate exit status %d on an invalid package (%s): %s" % (r["rc"], label, r["stderr"][-300:]), {"label": label, "result": r})
        elif r["rc"] == 0:
            chk.fail("exit-0-on-invalid-package/%s" % label, "yardl generate exits 0 although the package has an error (%s at %s); files changed: %d %s" % (
                label, loc, r["nchanged"], r["changed"][:4]), {"label": label, "result": r})
        elif r["nchanged"] or r["created_root"]:
            chk.fail("output-touched-despite-error/%s" % label, "yardl generate failed but touched the output directory (%s): %s" % (label, r["changed"][:6] or "created the output root"),
                     {"label": label, "result": r})
    chk.sample({"invalid_packages": [i[0] for i in invalid][:12], "configurations": len(subsets), "runs": len(cases)})
    chk.assumptions += ["output directories are snapshotted recursively (type, size, sha256, mtime_ns, inode); files outside the configured output directories are not watched",
                        "git/https imports and versions are out of scope"]
    return chk.finish()

"""C09 The language rules are enforced wherever a violation occurs.

Base package tree (main package with two model files, an imported package, an import of the import, a previous version)
x rule violations x every position where the rule can be violated. One violation per mutant; the unmutated base must be
accepted. Executed through the real LoadPackage + validatePackage in-process and, for one representative per
(rule, position class), through the real CLI."""
import itertools, json, os, re, shutil
from build import Pool

import build
from evidence import Check

# ---------------------------------------------------------------------------------------------- base package tree
# @@name@@ marks a type slot (replaced by its default unless a mutant puts a violating type there);
# ##defs:<file>## marks where extra definitions can be appended.
BASE = {
    "main/_package.yml": "namespace: Main\nimports:\n  - ../imp\nversions:\n  v0: ../v0\n",
    "main/a.yml": """Rec: !record
  fields:
    plain: @@field@@
    nested: !vector
      items: @@vecitem@@
    mapped: !map
      keys: string
      values: @@mapval@@
    arr: !array
      items: @@arritem@@
      dimensions: [2, 2]
    opt: [null, @@optcase@@]
    un: !union
      a: @@unioncase@@
      b: string
    gen: !generic
      name: Gen
      args: [@@genarg@@]
    deep: !vector
      items: !map
        keys: int
        values: [null, @@deep@@]
    imported: Imp.Thing
    impgen: !generic
      name: Imp.Box
      args: [@@impgenarg@@]
  computedFields:
    calc: plain2 + 1
Rec2: !record
  fields:
    plain2: int
    s: string
    v: int*
    m: string->int
  computedFields:
    c1: plain2 + 1
    c2: v[0]
    c3: m["k"]
Gen<T>: !record
  fields:
    t: T
    lst: !vector
      items: @@ingeneric@@
Alias1: @@alias@@
Alias2: Alias1
Alias3: Alias2*
GenAlias<T>: !vector
  items: @@ingenericalias@@
Color: !enum
  values: [red, green]
KeyedBy<K, V>: K->V
##defs:main/a.yml##
""",
    "main/b.yml": """Proto: !protocol
  sequence:
    first: @@step@@
    second: !stream
      items: @@streamitem@@
    third: !generic
      name: GenAlias
      args: [@@stepgenarg@@]
    fourth: Rec
    fifth: !vector
      items: @@stepnested@@
    sixth: !map
      keys: string
      values: [null, @@stepdeep@@]
Other: !record
  fields:
    o: @@file2field@@
    o2: Rec2
##defs:main/b.yml##
""",
    "imp/_package.yml": "namespace: Imp\nimports:\n  - ../imp2\n",
    "imp/model.yml": """Thing: !record
  fields:
    a: @@impfield@@
    deepimp: Imp2.Leaf
Box<T>: !record
  fields:
    b: T
    c: !vector
      items: @@impvec@@
KeyedBy<K, V>: K->V
##defs:imp/model.yml##
""",
    "imp2/_package.yml": "namespace: Imp2\n",
    "imp2/model.yml": """Leaf: !record
  fields:
    z: @@imp2field@@
Wrap<T>: !record
  fields:
    w: T
KeyedBy<K, V>: K->V
##defs:imp2/model.yml##
""",
    "v0/_package.yml": "namespace: Main\nimports:\n  - ../imp\n",
    "v0/a.yml": """Rec: !record
  fields:
    plain: @@v0field@@
    imported: Imp.Thing
Proto: !protocol
  sequence:
    first: int
    second: !stream
      items: @@v0stream@@
    fourth: Rec
    fifth: !vector
      items: int
    sixth: !map
      keys: string
      values: [null, float]
KeyedBy<K, V>: K->V
##defs:v0/a.yml##
""",
}
# Rec.calc uses plain2?  no: fix below (calc must be well typed in the base)
BASE["main/a.yml"] = BASE["main/a.yml"].replace("    calc: plain2 + 1\n", "    calc: gen\n")

SLOT_DEFAULT = {"field": "int", "vecitem": "int", "mapval": "float", "arritem": "int", "optcase": "int", "unioncase": "int",
                "genarg": "int", "deep": "string", "impgenarg": "float", "ingeneric": "T", "alias": "int", "ingenericalias": "T",
                "step": "int", "streamitem": "int", "stepgenarg": "int", "file2field": "int", "stepnested": "int", "stepdeep": "float", "impfield": "int", "impvec": "T",
                "imp2field": "int", "v0field": "int", "v0stream": "int"}
SLOT_FILE = {}
for _f, _t in BASE.items():
    for _m in re.findall(r"@@(\w+)@@", _t):
        SLOT_FILE[_m] = _f
SLOT_CLASS = {"field": "record-field", "vecitem": "nested-container", "mapval": "map-value", "arritem": "array-element",
              "optcase": "optional-case", "unioncase": "union-case", "genarg": "generic-argument", "deep": "depth-3",
              "impgenarg": "imported-generic-argument", "ingeneric": "inside-generic-record", "alias": "alias-chain-root",
              "ingenericalias": "inside-generic-alias", "step": "protocol-step", "streamitem": "stream-item",
              "stepgenarg": "step-generic-argument", "file2field": "second-file", "stepnested": "nested-in-step", "stepdeep": "depth-3-in-step", "impfield": "imported-package",
              "impvec": "imported-generic", "imp2field": "import-of-import", "v0field": "previous-version",
              "v0stream": "previous-version-stream"}

# ---------------------------------------------------------------------------------------------- violations
# type-level: a YAML flow node that is an ill-formed / ill-referenced type; {G} = name of a 1-parameter generic visible
# in that file, {R} = a visible record, {Q} = qualifier
TYPE_VIOLATIONS = {
    "unknown-type": ["Missing", "Missing*", "\"Missing?\"", "\"Missing[2]\"", "\"string->Missing\""],
    "unknown-namespace": ["Nowhere.Thing"],
    # names that mean something elsewhere: type parameters of generic definitions in this or another file / package ({TP} = T where
    # no enclosing definition declares it), a namespace on its own, an enum symbol, a field name
    "unknown-type-named-like-foreign-symbol": ["K", "\"V?\"", "{TP}", "\"{TP}*\"", "Imp", "Imp2", "Main", "red", "plain2"],
    "generic-arity-too-many": ["\"{G}<int, int>\""],
    "generic-arity-missing": ["{G}"],
    "generic-arity-on-nongeneric": ["\"{R}<int>\"", "\"int<int>\"", "\"Color<int>\""],
    "union-duplicate-case": ["[int, int]", "[float, float32]", "[null, string, string]", "[{R}, {R}]"],
    "union-nested": ["[int, [float, string]]", "[null, [int, float]]", "[null, string, [int, float]]"],
    "union-tag-casing": ["!union {BadTag: int, other: float}", "!union {bad_tag: int, other: float}"],
    "union-untaggable-case": ["[\"int*\", string]"],
    "union-null-not-first": ["[int, null]", "[int, null, string]"],
    "union-only-null": ["[null]"],
    "union-empty": ["[]"],
    "union-duplicate-tag": ["!union {a: int, a: string}"],
    "stream-outside-step": ["!stream {items: int}"],
    "map-key-vector": ["!map {keys: !vector {items: int}, values: int}"],
    "map-key-record": ["\"{R}->int\"", "!map {keys: {R}, values: int}"],
    "map-key-optional": ["!map {keys: [null, int], values: int}"],
    "map-key-through-generic-argument": ["\"KeyedBy<{R}, int>\"", "\"KeyedBy<int*, int>\"", "!generic {name: KeyedBy, args: [[int, string], int]}",
                                         "\"KeyedBy<int, KeyedBy<{R}, int>>\"", "\"KeyedBy<KeyedBy<int, int>, int>\""],
    "array-mixed-dimension-lengths": ["\"int[x:2, y]\"", "\"int[2,]\""],
    "array-duplicate-dimension-names": ["\"int[x, x]\"", "\"int[x:1, x:2]\""],
    "vector-negative-length": ["!vector {items: int, length: -1}"],
    "protocol-as-type": ["Proto"],
}
# these may legitimately appear in a protocol step slot
STEP_OK = {"stream-outside-step"}

# definition-level: text appended to a file
DEF_VIOLATIONS = {
    "duplicate-type-name": ["Dup: int\nDup: float\n", "Dup: !record\n  fields:\n    a: int\nDup: !enum\n  values: [a]\n"],
    "duplicate-name-generic": ["Dup<T>: T\nDup: int\n"],
    "type-name-casing": ["badName: int\n", "Bad_Name: int\n", "_Bad: int\n"],
    "field-name-casing": ["Cas: !record\n  fields:\n    BadField: int\n", "Cas: !record\n  fields:\n    bad_field: int\n"],
    "duplicate-field-name": ["Df: !record\n  fields:\n    a: int\n    a: float\n"],
    "computed-field-name-clash": ["Cf: !record\n  fields:\n    a: int\n  computedFields:\n    a: 1\n"],
    "step-name-casing": ["Ps: !protocol\n  sequence:\n    BadStep: int\n"],
    "duplicate-step-name": ["Ps: !protocol\n  sequence:\n    a: int\n    a: float\n"],
    "enum-symbol-invalid": ["En: !enum\n  values: [a-b]\n", "En: !enum\n  values: [1a]\n"],
    "enum-duplicate-symbol": ["En: !enum\n  values: [a, a]\n", "En: !enum\n  values:\n    a: 1\n    a: 2\n"],
    "enum-duplicate-value": ["En: !enum\n  values:\n    a: 1\n    b: 1\n"],
    "enum-value-out-of-range": ["En: !enum\n  base: uint8\n  values:\n    a: 256\n", "En: !enum\n  base: int8\n  values:\n    a: -129\n",
                                "En: !enum\n  base: uint16\n  values:\n    a: -1\n", "En: !flags\n  base: uint8\n  values:\n    a: 256\n"],
    "enum-non-integer-base": ["En: !enum\n  base: float\n  values: [a]\n", "En: !enum\n  base: string\n  values: [a]\n",
                              "Sb: string\nEn: !enum\n  base: Sb\n  values: [a]\n", "En: !enum\n  base: int*\n  values: [a]\n"],
    "enum-unknown-base": ["En: !enum\n  base: Missing\n  values: [a]\n"],
    "enum-generic": ["En<T>: !enum\n  values: [a]\n"],
    "protocol-generic": ["Pg<T>: !protocol\n  sequence:\n    a: T\n"],
    "reference-cycle-record": ["Cy: !record\n  fields:\n    c: Cy\n", "Cy1: !record\n  fields:\n    c: Cy2\nCy2: !record\n  fields:\n    c: Cy1\n",
                               "Cy: !record\n  fields:\n    c: Cy?\n", "Cy: !record\n  fields:\n    c: Cy*3\n"],
    "reference-cycle-alias": ["Ca1: Ca2\nCa2: Ca1\n", "Ca: Ca\n", "Ca1: Ca2*\nCa2: Ca1?\n"],
    "reference-cycle-through-generic": ["Cg<T>: !record\n  fields:\n    t: T\nCy: !record\n  fields:\n    c: Cg<Cy>\n", "Cg<T>: T\nCy: Cg<Cy>\n"],
    "reference-cycle-through-imported-generic": ["Cy: !record\n  fields:\n    c: {IG}<Cy>\n", "Cy: {IG}<Cy>\n",
                                                 "Cy1: !record\n  fields:\n    c: Cy2\nCy2: !record\n  fields:\n    c: {IG}<Cy1>\n",
                                                 "Cy: !record\n  fields:\n    c: !vector\n      items: {IG}<Cy?>\n"],
    "unused-type-parameter": ["Ut<T>: int\n", "Ut<T, U>: !record\n  fields:\n    t: T\n"],
    "duplicate-type-parameter": ["Dt<T, T>: !record\n  fields:\n    t: T\n"],
    "type-parameter-name-invalid": ["Tp<t>: t\n"],
    "empty-record": ["Er: !record\n  fields: {}\n"],
    "empty-protocol": ["Ep: !protocol\n  sequence: {}\n"],
    "computed-cast-between-unrelated-primitives": ["Cq: !record\n  fields:\n    s: string\n  computedFields:\n    c: s as date\n", "Cq: !record\n  fields:\n    b: bool\n  computedFields:\n    c: b as string\n",
                                                   "Cq: !record\n  fields:\n    d: date\n  computedFields:\n    c: d as time\n", "Cq: !record\n  fields:\n    s: string\n  computedFields:\n    c: s as bool\n",
                                                   "Cq: !record\n  fields:\n    t: datetime\n  computedFields:\n    c: (t as date) as int\n", "Cq: !record\n  fields:\n    s: string\n  computedFields:\n    c: s as int\n",
                                                   "Cq: !record\n  fields:\n    i: int\n  computedFields:\n    c: i as string\n", "Cq: !record\n  fields:\n    v: int*\n  computedFields:\n    c: v as int\n"],
    "computed-unknown-field": ["Cq: !record\n  fields:\n    x: int\n  computedFields:\n    c: nope\n"],
    "computed-type-mismatch": ["Cq: !record\n  fields:\n    x: int\n    s: string\n  computedFields:\n    c: x + s\n",
                               "Cq: !record\n  fields:\n    s: string\n  computedFields:\n    c: -s\n",
                               "Cq: !record\n  fields:\n    s: string\n    t: string\n  computedFields:\n    c: s * t\n"],
    "computed-bad-index": ["Cq: !record\n  fields:\n    x: int\n  computedFields:\n    c: x[0]\n",
                           "Cq: !record\n  fields:\n    v: int*\n  computedFields:\n    c: v[\"k\"]\n",
                           "Cq: !record\n  fields:\n    v: int*3\n  computedFields:\n    c: v[3]\n",
                           "Cq: !record\n  fields:\n    m: string->int\n  computedFields:\n    c: m[1]\n",
                           "Cq: !record\n  fields:\n    a: int[2,3]\n  computedFields:\n    c: a[0]\n",
                           "Cq: !record\n  fields:\n    a: int[x:2,y:3]\n  computedFields:\n    c: a[z:0, y:0]\n",
                           "Cq: !record\n  fields:\n    a: int[]\n  computedFields:\n    c: a[\"k\"]\n",
                           "Cq: !record\n  fields:\n    a: !array {items: int}\n  computedFields:\n    c: a[1.5]\n",
                           "Cq: !record\n  fields:\n    a: int[]\n    s: string\n  computedFields:\n    c: a[0, s]\n",
                           "Da: int[]\nCq: !record\n  fields:\n    a: Da\n    f: float\n  computedFields:\n    c: a[f]\n",
                           "Cq: !record\n  fields:\n    a: int[,]\n  computedFields:\n    c: a[0, 1.5]\n",
                           "Cq: !record\n  fields:\n    v: int*\n    f: float\n  computedFields:\n    c: v[f]\n"],
    "computed-bad-function": ["Cq: !record\n  fields:\n    x: int\n  computedFields:\n    c: size(x)\n",
                              "Cq: !record\n  fields:\n    v: int*\n  computedFields:\n    c: nosuch(v)\n",
                              "Cq: !record\n  fields:\n    a: int[x,y]\n  computedFields:\n    c: dimensionIndex(a, \"z\")\n"],
    "computed-bad-cast": ["Cq: !record\n  fields:\n    s: string\n  computedFields:\n    c: s as int\n",
                          "Cq: !record\n  fields:\n    x: int\n  computedFields:\n    c: x as Missing\n"],
    "computed-bad-switch": ["Cq: !record\n  fields:\n    o: int?\n  computedFields:\n    c:\n      !switch o:\n        int i: i\n",
                            "Cq: !record\n  fields:\n    o: int?\n  computedFields:\n    c:\n      !switch o:\n        string s: 1\n        _: 2\n",
                            "Cq: !record\n  fields:\n    o: int?\n  computedFields:\n    c:\n      !switch o:\n        _: 1\n        int: 2\n"],
    "computed-field-cycle": ["Cq: !record\n  fields:\n    x: int\n  computedFields:\n    a: b\n    b: a\n"],
}
FILES_FOR_DEFS = {"main/a.yml": "main-file-1", "main/b.yml": "main-file-2", "imp/model.yml": "imported-package",
                  "imp2/model.yml": "import-of-import", "v0/a.yml": "previous-version"}
VISIBLE = {  # names usable in a type slot of each file: (1-param generic, record)
    "main/a.yml": ("Gen", "Rec2"), "main/b.yml": ("Gen", "Rec2"), "imp/model.yml": ("Box", "Thing"),
    "imp2/model.yml": (None, "Leaf"), "v0/a.yml": ("Imp.Box", "Rec")}
IMPORTED_GENERIC = {"main/a.yml": "Imp.Box", "main/b.yml": "Imp.Box", "imp/model.yml": "Imp2.Wrap", "v0/a.yml": "Imp.Box"}
# violations that need two cooperating sites: (rule, {file: appended text}) -- the error may name either file
CROSS_VIOLATIONS = [
    ("duplicate-type-name-across-files", {"main/a.yml": "Twice: int\n", "main/b.yml": "Twice: float\n"}),
    ("duplicate-type-name-across-files", {"main/b.yml": "Rec2: int\n"}),
    ("reference-cycle-across-files", {"main/a.yml": "CyA: !record\n  fields:\n    c: CyB\n", "main/b.yml": "CyB: !record\n  fields:\n    c: CyA\n"}),
    ("reference-cycle-across-files", {"main/a.yml": "CyA: CyB*\n", "main/b.yml": "CyB: !record\n  fields:\n    c: CyA?\n"}),
    ("union-duplicate-case-through-alias-in-other-file", {"main/a.yml": "Ua: int\n", "main/b.yml": "Ub: [int, Ua]\n"}),
    ("union-duplicate-case-through-imported-alias", {"imp/model.yml": "Ia: string\n", "main/b.yml": "Ub: [string, Imp.Ia]\n"}),
    ("enum-base-alias-in-other-file", {"main/a.yml": "Fb: float\n", "main/b.yml": "En: !enum\n  base: Fb\n  values: [a]\n"}),
    ("map-key-alias-of-record-in-other-file", {"main/a.yml": "Ka: Rec2\n", "main/b.yml": "Km: Ka->int\n"}),
    ("map-key-imported-record", {"main/b.yml": "Km: Imp.Thing->int\n"}),
    ("generic-arity-imported", {"main/b.yml": "Ga: Imp.Box<int, int>\n"}),
    ("generic-arity-imported", {"main/b.yml": "Ga: Imp.Thing<int>\n"}),
    ("unknown-type-in-imported-namespace", {"main/b.yml": "Ga: Imp.Missing\n"}),
    ("type-from-unimported-namespace", {"imp2/model.yml": "Up: Imp.Thing\n"}),
    ("computed-field-on-imported-record", {"main/b.yml": "Cq: !record\n  fields:\n    t: Imp.Thing\n  computedFields:\n    c: t.nope\n"}),
]


def render(slot_values=None, extra_defs=None):
    files = {}
    for path, text in BASE.items():
        def sub(m):
            name = m.group(1)
            return (slot_values or {}).get(name, SLOT_DEFAULT[name])
        t = re.sub(r"@@(\w+)@@", sub, text)
        t = re.sub(r"##defs:([^#]+)##\n", lambda m: (extra_defs or {}).get(m.group(1), ""), t)
        files[path] = t
    return files


def mutants(tier):
    out = []
    for rule, snippets in TYPE_VIOLATIONS.items():
        for slot in SLOT_DEFAULT:
            if slot in ("step", ) and rule in STEP_OK:
                continue
            f = SLOT_FILE[slot]
            g, r = VISIBLE[f]
            for sn in snippets:
                if ("{G}" in sn and g is None):
                    continue
                if rule == "protocol-as-type" and not f.startswith("main"):
                    continue
                if "{TP}" in sn and slot in ("ingeneric", "ingenericalias", "impvec"):
                    continue
                text = sn.replace("{G}", g or "").replace("{R}", r).replace("{TP}", "T")
                if slot in ("ingeneric", "ingenericalias", "impvec") and rule in ("generic-arity-missing",):
                    pass
                out.append({"rule": rule, "position": SLOT_CLASS[slot], "file": f, "slot": {slot: text}, "defs": {}})
    for rule, snippets in DEF_VIOLATIONS.items():
        for f, pos in FILES_FOR_DEFS.items():
            for sn in snippets:
                if "{IG}" in sn:
                    if f not in IMPORTED_GENERIC:
                        continue
                    sn = sn.replace("{IG}", IMPORTED_GENERIC[f])
                out.append({"rule": rule, "position": pos, "file": f, "slot": {}, "defs": {f: sn}})
    for rule, defs in CROSS_VIOLATIONS:
        out.append({"rule": rule, "position": "+".join(sorted(FILES_FOR_DEFS[f] for f in defs)), "file": sorted(defs), "slot": {}, "defs": defs})
    return out


_W = {}


def run_mutant(m):
    if _W.get("pid") != os.getpid():
        _W["pid"] = os.getpid()
        _W["dir"] = os.path.join(build.scratch(), "c09-w%d" % os.getpid())
        _W["h"] = build.HarnessProc("frontend", vlimit_kb=6000000)
    d, h = _W["dir"], _W["h"]
    shutil.rmtree(d, ignore_errors=True)
    build.write_tree(d, render(m["slot"], m["defs"]))
    res = h.call({"dir": os.path.join(d, "main")}, timeout=30)
    if m.get("cli"):
        rc, out, err = build.yardl(["validate"], cwd=os.path.join(d, "main"))
        res["cli"] = {"rc": rc, "stderr": err[-600:]}
    return m, res, d


def main(tier):
    chk = Check("C09", "exploration", tier,
                "one base package tree (main package in two files, imported package, import of the import, previous version; 21 type "
                "slots covering record field, nested container, map value, array element, optional/union case, generic argument, "
                "imported generic argument, inside generic record/alias, alias chain, protocol step, stream item, second file, imported "
                "package, import of import, previous version) x 19 type-level rule violations (58 snippets) in every slot + 36 "
                "definition-level rule violations (70 snippets) appended to every file; non-trivial = every mutant (each contains "
                "exactly one violation); the unmutated base must be accepted")
    build.yardl_bin()
    build.harness_bin()
    ms = mutants(tier)
    seen = set()
    for m in ms:
        k = (m["rule"], m["position"])
        if k not in seen:
            seen.add(k)
            m["cli"] = True
    base = {"rule": "BASE", "position": "-", "file": "-", "slot": {}, "defs": {}, "cli": True}
    m, res, d = run_mutant(base)
    if res.get("err") is not None or res.get("panic") or res["cli"]["rc"] != 0:
        raise build.HarnessError("unmutated base package is rejected: %s" % json.dumps(res)[:600])
    with Pool(build.NCPU) as pool:
        results = pool.map(run_mutant, ms, chunksize=8)
    ncli = 0
    for m, res, d in results:
        chk.count()
        chk.nontriv((m["rule"], m["position"], json.dumps(m["slot"]), json.dumps(m["defs"])))
        desc = "rule %s at %s (%s): %s" % (m["rule"], m["position"], m["file"], json.dumps(m["slot"] or m["defs"]))
        replay = {"mutant": m, "files": render(m["slot"], m["defs"]), "result": res}
        if res.get("panic") or res.get("died") is not None or res.get("hang"):
            chk.outcome("crash")
            chk.fail("crash/%s/%s" % (m["rule"], m["position"]), desc + " -> " + json.dumps(res)[:300], replay)
            continue
        err = res.get("err")
        chk.outcome("accepted" if err is None else "rejected")
        if err is None:
            chk.fail("accepted/%s/%s" % (m["rule"], m["position"]), "violation accepted: " + desc, replay)
        elif not any(os.path.join(d, f) in err for f in ([m["file"]] if isinstance(m["file"], str) else m["file"])):
            chk.fail("wrong-file/%s/%s" % (m["rule"], m["position"]), "error does not name the offending file %s: %s :: %s" % (m["file"], err[:300], desc), replay)
        if "cli" in res:
            ncli += 1
            if (res["cli"]["rc"] != 0) != (err is not None) or res["cli"]["rc"] not in (0, 1):
                chk.fail("cli-disagrees/%s/%s" % (m["rule"], m["position"]), "CLI rc=%d, in-process err=%r" % (res["cli"]["rc"], err), replay)
        if chk.evaluations % 400 == 1:
            chk.sample({"rule": m["rule"], "position": m["position"], "mutation": m["slot"] or m["defs"], "error": (err or "")[:200]})
    chk.extra.update({"mutants": len(ms), "rules": len(TYPE_VIOLATIONS) + len(DEF_VIOLATIONS), "cli_runs": ncli,
                      "positions": len(set(SLOT_CLASS.values())) + len(FILES_FOR_DEFS)})
    chk.assumptions += ["the rule list is the one in the property statement, spelled out from docs/*/language.md; each mutant holds exactly one violation",
                        "in-process LoadPackage + validatePackage stands for `yardl validate` (representatives re-run through the CLI)"]
    return chk.finish()


def replay(path):
    case = json.load(open(path))["case"]
    m = case["mutant"]
    m["cli"] = True
    print(json.dumps(run_mutant(m)[1], indent=1))
    return 0

"""C14 All target languages follow the same serialization plan.

For every protocol step and record field of the packed shape packages the serializer composition is parsed out of the generated
C++ (binary/protocols.cc), Python binary (binary.py), Python NDJSON (ndjson.py) and MATLAB binary (+ns/+binary/*.m), normalised
to one plan grammar and compared with the plan derived from the abstract model (field order, fixed lengths, ranks and shapes,
key/value encodings, enum base types, case order, null handling)."""
import os, re
from concurrent.futures import ThreadPoolExecutor

import am, build, cppdrv, plans, shapes
from evidence import Check


def snake(name):
    return name


def extract(pkg, root):
    rc, err, outdir = cppdrv.generate(pkg, root, targets=("cpp", "python", "matlab"))
    if rc != 0:
        return {"error": err[-500:]}
    ns = pkg.namespace.lower()
    res = {"plans": {}, "unparsed": []}
    # reference
    ref = {}
    refmeta = {}
    for p in pkg.protocols:
        for sn, st in p.steps:
            ct = am.resolve(pkg, st)
            ref[(p.name, sn)] = plans.ref_plan(ct)
            refmeta[(p.name, sn)] = plans.ref_union_meta(ct)
    res["ref"] = ref
    res["refmeta"] = refmeta
    # python binary
    pyd = os.path.join(outdir, "py", ns)
    for backend, fname, kind, recf in (("py-binary", "binary.py", "Serializer", plans.py_records_binary), ("py-ndjson", "ndjson.py", "Converter", plans.py_records_ndjson)):
        txt = open(os.path.join(pyd, fname)).read()
        recs = recf(txt)
        ucases = plans.py_union_cases(open(os.path.join(pyd, "types.py")).read())
        # imported namespaces: record serializers referenced as `imp.binary.IRSerializer()`
        for sub in os.listdir(pyd):
            sp = os.path.join(pyd, sub, fname)
            if os.path.isfile(sp):
                for k, v in recf(open(sp).read()).items():
                    recs.setdefault(k, v)
                for k, v in plans.py_union_cases(open(os.path.join(pyd, sub, "types.py")).read()).items():
                    ucases.setdefault(k, v)
        recs["__union_cases__"] = ucases
        steps = plans.py_step_plans(txt, kind)
        for key, node in steps.items():
            try:
                res["plans"][(backend,) + key] = plans.py_plan(node, recs, None, kind)
            except (plans.Unparsed, IndexError, KeyError, TypeError) as e:
                res["unparsed"].append((backend, key, str(e)[:120]))
    # matlab
    mroot = os.path.join(outdir, "matlab")
    mbin = os.path.join(mroot, "+" + ns, "+binary")
    if os.path.isdir(mbin):
        try:
            recs = plans.matlab_records(mbin)
            ucases = {}
            for d in os.listdir(mroot):
                ob = os.path.join(mroot, d, "+binary")
                if os.path.isdir(ob) and ob != mbin:
                    for k, v in plans.matlab_records(ob).items():
                        recs.setdefault(k, v)
                if d.startswith("+") and d != "+yardl":
                    ucases.update(plans.matlab_union_cases(os.path.join(mroot, d), d[1:]))
            recs["__union_cases__"] = ucases
            for key, node in plans.matlab_step_plans(mbin).items():
                try:
                    res["plans"][("matlab-binary",) + key] = plans.matlab_plan(node, recs)
                except (plans.Unparsed, IndexError, KeyError, TypeError) as e:
                    res["unparsed"].append(("matlab-binary", key, str(e)[:120]))
        except plans.Unparsed as e:
            res["unparsed"].append(("matlab-binary", ("*", "*"), str(e)[:120]))
    # C++
    cppd = os.path.join(outdir, "cpp")
    try:
        ctx = plans.cpp_context(cppd)
        for (proto, cstep), (writer, typ) in plans.cpp_step_plans(cppd).items():
            sname = cstep[0].lower() + cstep[1:]
            try:
                if not re.match(r"^[\w:]+(<.*>)?$", writer):
                    raise plans.Unparsed("writer expression %r" % writer[:60])
                res["plans"][("cpp-binary", proto, sname)] = plans.cpp_plan(writer, typ, ctx)
            except (plans.Unparsed, IndexError, KeyError, TypeError, ValueError) as e:
                res["unparsed"].append(("cpp-binary", (proto, sname), str(e)[:120]))
    except Exception as e:  # noqa
        res["unparsed"].append(("cpp-binary", ("*", "*"), "context: %s" % str(e)[:120]))
    res["omission"] = ndjson_omission(pkg, outdir)
    return res


def ndjson_omission(pkg, outdir):
    """Which record fields the generated Python NDJSON converters omit when null / tolerate as absent, vs the model:
    a field is omitted exactly when its (alias-resolved) type is an optional or a union whose first case is null."""
    ns = pkg.namespace.lower()
    txt = open(os.path.join(outdir, "py", ns, "ndjson.py")).read()
    out = []
    for d in pkg.defs:
        if d.kind != "record":
            continue
        m = re.search(r"^class %sConverter\(.*?(?=^class |\Z)" % d.name, txt, re.M | re.S)
        if not m:
            out.append((d.name, None, "converter class not found"))
            continue
        body = m.group(0)
        tj = re.search(r"def to_json\(self.*?(?=\n    def )", body, re.S).group(0)
        fj = re.search(r"def from_json\(self.*?(?=\n    def |\Z)", body, re.S).group(0)
        for fn, ft in d.fields:
            if am_contains_tparam(ft):
                continue
            ct = am.resolve(pkg, ft)
            want = ct[0] == "opt" or (ct[0] == "union" and ct[1][0][1] is None)
            pyname = None
            wm = re.search(r'(if value\.(\w+) is not None:\n\s+)?json_object\["%s"\] = ' % re.escape(fn), tj)
            rm = re.search(r'json_object(\.get\("%s"\)|\["%s"\])' % (re.escape(fn), re.escape(fn)), fj)
            if not wm or not rm:
                out.append((d.name, fn, "field not found in generated to_json/from_json"))
                continue
            got_w = wm.group(1) is not None
            got_r = rm.group(1).startswith(".get")
            if got_w != want or got_r != want:
                out.append((d.name, fn, "model says %s when null; generated Python NDJSON %s it on write and %s on read" % (
                    "omitted" if want else "always present", "omits" if got_w else "always writes", "tolerates its absence" if got_r else "requires it")))
    return out


def am_contains_tparam(t):
    if t is None:
        return False
    if t[0] == "tparam":
        return True
    if t[0] == "named":
        return any(am_contains_tparam(a) for a in t[2])
    if t[0] in ("opt", "vec", "arr", "stream"):
        return am_contains_tparam(t[1])
    if t[0] == "map":
        return am_contains_tparam(t[1]) or am_contains_tparam(t[2])
    if t[0] == "union":
        return any(am_contains_tparam(c) for _, c in t[1])
    return False


# ---- C++ memcpy fast path: IsTriviallySerializable<Record> must be true only for records without any padding
TS_LAYOUT = {"bool": (1, 1), "int8": (1, 1), "uint8": (1, 1), "float32": (4, 4), "float64": (8, 8), "complexfloat32": (8, 4), "complexfloat64": (16, 8)}


def layout(pkg, t):
    """(size, align) of the C++ type if it is trivially serializable (memcpy-able) per serializers.h, else None."""
    k = t[0]
    if k == "prim":
        return TS_LAYOUT.get(t[1])
    if k == "vec" and t[2] is not None:
        l = layout(pkg, t[1])
        return (l[0] * t[2], l[1]) if l else None
    if k == "arr" and isinstance(t[2], tuple) and all(x is not None for _, x in t[2]):
        l = layout(pkg, t[1])
        n = 1
        for _, x in t[2]:
            n *= x
        return (l[0] * n, l[1]) if l else None
    if k == "named" and not t[2]:
        _, d = pkg.lookup(t[1])
        if d.kind == "alias":
            return layout(pkg, d.type)
        if d.kind == "record":
            return record_layout(pkg, d)[0]
    return None


def record_layout(pkg, d):
    """((size, align) | None if not memcpy-able, expected IsTriviallySerializable value)"""
    off, maxal, total = 0, 1, 0
    for fn, ft in d.fields:
        l = layout(pkg, ft)
        if l is None:
            return None, False
        sz, al = l
        off = (off + al - 1) // al * al
        off += sz
        total += sz
        maxal = max(maxal, al)
    size = (off + maxal - 1) // maxal * maxal
    return ((size, maxal) if size == total else None), size == total


def memcpy_probe(chk):
    from am import P, N, Vec, Arr, Record, Alias, Protocol, Package
    recs = [Record("Ta", [("a", P("uint8")), ("b", P("int8")), ("c", P("bool"))]),                 # packed bytes
            Record("Tb", [("a", P("float32")), ("b", P("float32"))]),                              # packed floats
            Record("Tc", [("a", P("uint8")), ("b", P("float32"))]),                                # inner padding
            Record("Td", [("a", P("float64")), ("b", P("uint8"))]),                                # trailing padding
            Record("Te", [("a", P("float64")), ("b", P("complexfloat32"))]),                       # packed 8+8
            Record("Tf", [("a", P("complexfloat64")), ("b", P("float32"))]),                       # trailing padding (16+4 -> 24)
            Record("Tg", [("a", P("float32")), ("b", P("complexfloat32")), ("c", P("float32"))]),  # packed with align 4
            Record("Th", [("a", P("float32")), ("b", P("float64"))]),                              # inner padding
            Record("Ti", [("a", Vec(P("uint8"), 3)), ("b", P("uint8"))]),                          # fixed vector, packed
            Record("Tj", [("a", Vec(P("uint8"), 3)), ("b", P("float32"))]),                        # fixed vector + padding
            Record("Tk", [("a", N("Tb")), ("b", P("float32"))]),                                   # nested packed record
            Record("Tl", [("a", N("Td")), ("b", P("float64"))]),                                   # nested non-memcpy-able record
            Record("Tm", [("a", P("int32")), ("b", P("float32"))]),                                # varint field: never memcpy-able
            Record("Tn", [("a", P("float32")), ("b", P("string"))]),
            Record("To", [("a", Arr(P("float32"), [2, 2])), ("b", P("float64"))]),                 # fixed array 16 bytes + 8
            Record("Tp", [("a", P("float64")), ("b", P("float32")), ("c", P("float32"))]),         # 8+4+4 packed
            Record("Tq", [("a", P("float32")), ("b", P("float32")), ("c", P("float64")), ("d", P("uint8"))])]
    pkg = Package("Mcp", defs=recs, protocols=[Protocol("P", [(r.name.lower(), N(r.name)) for r in recs])], dirname="mcp")
    root = os.path.join(build.scratch(), "c14", "mcp")
    rc, err, outdir = cppdrv.generate(pkg, root, targets=("cpp",), cpp_opts={"generateNDJson": "false"})
    if rc != 0:
        raise build.HarnessError("memcpy probe package rejected: " + err[-300:])
    cppdir = os.path.join(outdir, "cpp")
    ns = cppdrv.cpp_namespace(cppdir)
    main = os.path.join(cppdir, "probe.cc")
    with open(main, "w") as f:
        f.write('#include "binary/protocols.cc"\n#include <cstdio>\nint main() {\n')
        for r in recs:
            f.write('  printf("%s %%d %%zu\\n", (int)yardl::binary::IsTriviallySerializable<%s::%s>::value, sizeof(%s::%s));\n' % (r.name, ns, r.name, ns, r.name))
        f.write("  return 0;\n}\n")
    ok, objs, errors = cppdrv.compile_objects(cppdir, ["types.cc", "protocols.cc", main], ["-O0"])
    if not ok:
        raise build.HarnessError("memcpy probe does not compile: " + list(errors.values())[0][:600])
    exe = os.path.join(cppdir, "probe")
    build.run(["g++"] + objs + ["-o", exe], cwd=cppdir, check=True)
    out = build.run([exe], check=True).stdout.decode().split("\n")
    got = {l.split()[0]: (int(l.split()[1]), int(l.split()[2])) for l in out if l.strip()}
    for r in recs:
        lay, want = record_layout(pkg, r)
        chk.count()
        chk.nontriv(("memcpy", r.name))
        g = got.get(r.name)
        if g is None or bool(g[0]) != want:
            chk.fail("cpp-binary/memcpy-fast-path/%s" % ("taken-despite-padding" if g and g[0] else "wrong"),
                     "C++ IsTriviallySerializable<%s> = %s (sizeof %s) but the record {%s} %s be copied as raw bytes: the plan is the concatenation of its fields without padding" % (
                         r.name, g and g[0], g and g[1], ", ".join("%s: %s" % (fn, am.yaml_type(ft)) for fn, ft in r.fields), "can" if want else "cannot"),
                     {"record": r.name, "fields": [(fn, am.yaml_type(ft)) for fn, ft in r.fields], "observed": g, "expected": want})


def named_union_package():
    """Named unions that contain further unions (in a vector / map value / record field case), named containers of unions and two
    names for one union: the class a serializer names for a case must be the class that defines it."""
    from am import P, N, Vec, Map, Opt, Union, Record, Alias, Protocol, Package
    defs = [Alias("Na", Union(("i", P("int32")), ("v", Vec(Union(P("float32"), P("string")))))),
            Alias("Nb", Vec(Union(P("int32"), P("string")))),
            Alias("Nm", Map(P("string"), Union(P("int32"), P("float32")))),
            Alias("Nn", Union(None, ("a", P("int32")), ("m", Map(P("string"), Union(P("bool"), P("string")))))),
            Alias("Nc", Union(P("int32"), P("string"))), Alias("Nd", Union(P("int32"), P("string"))),
            Record("Rn", [("x", N("Na")), ("y", Union(P("int32"), P("string"))), ("z", N("Nc")), ("w", Opt(N("Nd")))]),
            Alias("Ne", Union(("r", N("Rn")), ("l", Vec(N("Na")))))]
    from am import Arr
    defs += [Record("Rk", [("c3", Arr(P("float32"), [2, 3, 4])), ("c4", Arr(P("int16"), [2, 3, 4, 5])), ("n3", Arr(P("uint8"), [("x", 4), ("y", 2), ("z", 3)]))]),
             Alias("A3", Arr(P("float64"), [3, 1, 2]))]
    steps = [("rk", N("Rk")), ("a3", N("A3")), ("f3", Arr(P("int32"), [2, 3, 4])), ("f4", am.Stream(Arr(P("float32"), [5, 4, 3, 2]))), ("v3", Vec(Arr(P("int8"), [1, 2, 3]))),
             ("f5", Arr(P("uint16"), [2, 1, 3, 1, 4]))] + [("na", N("Na")), ("nb", N("Nb")), ("nm", N("Nm")), ("nn", N("Nn")), ("nc", N("Nc")), ("nd", N("Nd")), ("rn", N("Rn")), ("ne", N("Ne")),
             ("anon", Union(P("int32"), P("string"))), ("sna", am.Stream(N("Na"))), ("vne", Vec(N("Ne")))]
    return Package("Nun", defs=defs, protocols=[Protocol("Pn", steps)], dirname="nun")


def norm(plan, backend):
    """Differences that are representation only: NDJSON has no 'stream' wrapper at step level in some versions; `size` is uint64 on the wire."""
    if isinstance(plan, tuple):
        if len(plan) == 0:
            return plan
        if plan[0] == "prim" and plan[1] == "size":
            return ("prim", "uint64")
        if plan[0] == "enum" and plan[1] == "size":
            return ("enum", "uint64")
        return tuple(norm(x, backend) for x in plan)
    return plan


def main(tier):
    quick = tier == "quick"
    chk = Check("C14", "exploration", tier,
                "every protocol step (value step and stream step) of the packed shape packages (Shapes(1) in quick, Shapes(2) in thorough; each "
                "shape also as record field and generic argument): plan extracted from generated C++ binary, Python binary, Python NDJSON and "
                "MATLAB binary code and compared with the reference plan; non-trivial = distinct (step shape, backend) plans extracted")
    build.yardl_bin()
    sh = [s for s in shapes.shapes(1 if quick else 2, tier) if not shapes.has_vector_of_bool(s)]
    packed = shapes.pack(sh, "Pln", quarantine=False)
    packed.append((named_union_package(), []))
    with ThreadPoolExecutor(build.NCPU) as ex:
        results = list(ex.map(lambda a: (a[0], extract(a[0], os.path.join(build.scratch(), "c14", a[0].dirname))), packed))
    unparsed = 0
    per_backend = {}
    for pkg, res in results:
        if "error" in res:
            raise build.HarnessError("yardl rejected a packed package: " + res["error"])
        protos = {p.name: p for p in pkg.protocols}
        nn = lambda x: x.replace("_", "").lower()      # step names are snake_cased / PascalCased by the backends
        byname = {(p, nn(st)): (p, st) for (p, st) in res["ref"]}
        res["plans"] = {(b, ) + byname.get((p, nn(st)), (p, st)): pl for (b, p, st), pl in res["plans"].items()}
        for (backend, proto, step), plan in res["plans"].items():
            key = (proto, step)
            if key not in res["ref"]:
                continue
            chk.count()
            per_backend[backend] = per_backend.get(backend, 0) + 1
            got, metas = plans.strip_meta(plan)
            want, got = norm(res["ref"][key], backend), norm(got, backend)
            if backend == "py-ndjson" and want[0] == "stream":
                want = want[1]          # NDJSON converters are per item: there is no stream wrapper
            sy = am.yaml_type(dict(protos[proto].steps)[step])
            chk.nontriv((backend, sy))
            if want != got:
                chk.fail("%s/plan-differs/%s" % (backend, sy), "%s serializes step %s.%s (%s) as %s, the model prescribes %s" % (backend, proto, step, sy, got, want),
                         {"backend": backend, "namespace": pkg.namespace, "protocol": proto, "step": step, "type": sy, "extracted": repr(got), "reference": repr(want)})
            elif metas:
                # same composition: now the per-union facts the composition does not show
                wm = res["refmeta"][key]
                if len(wm) != len(metas):
                    raise build.HarnessError("union count of %s.%s differs between the plan and the model walk" % (proto, step))
                for (flag, tags, idx_ok), (wflag, wtags) in zip(metas, wm):
                    chk.nontriv((backend, "union-meta", flag, wflag, len(wtags)))
                    why = None
                    if not idx_ok:
                        why = ("case-index", "the case classes / factories named at the positions of the union serializer do not carry the indices of those positions: "
                               "the tag written for a case is not the position of its serializer")
                    elif flag is not None and "param" not in (flag, wflag) and flag != wflag:
                        why = ("ndjson-tagging", "union over %s is written %s, the documented rule (untagged iff all cases map to distinct JSON datatypes) says %s" % (list(wtags), flag, wflag))
                    elif tags and all(t is not None for t in wtags) and tuple(tags) != tuple(wtags):
                        why = ("case-tags", "case classes carry the tags %s, the model says %s" % (list(tags), list(wtags)))
                    if why:
                        chk.fail("%s/union-%s/%s" % (backend, why[0], sy), "%s step %s.%s (%s): %s" % (backend, proto, step, sy, why[1]),
                                 {"backend": backend, "namespace": pkg.namespace, "protocol": proto, "step": step, "type": sy, "unions": repr(metas), "reference": repr(wm)})
                        break
        for rec, field, why in res.get("omission", []):
            chk.count()
            chk.fail("py-ndjson/null-field-omission/%s" % ("alias" if field else "missing"), "record %s.%s.%s: %s" % (pkg.namespace, rec, field, why),
                     {"namespace": pkg.namespace, "record": rec, "field": field, "model": am.yaml_def([d for d in pkg.defs if d.name == rec][0])})
        for backend, key, why in res["unparsed"]:
            unparsed += 1
            chk.extra.setdefault("unparsed_examples", [])
            if len(chk.extra["unparsed_examples"]) < 12:
                chk.extra["unparsed_examples"].append("%s %s: %s" % (backend, key, why))
        # every step must have been extracted from every backend
        for key in res["ref"]:
            for backend in ("py-binary", "py-ndjson", "matlab-binary", "cpp-binary"):
                if (backend,) + key not in res["plans"]:
                    chk.extra["missing_%s" % backend] = chk.extra.get("missing_%s" % backend, 0) + 1
    memcpy_probe(chk)
    chk.extra["unparsed"] = unparsed
    chk.extra.update({"steps_%s" % b: n for b, n in per_backend.items()})
    if unparsed or any(k.startswith("missing_") for k in chk.extra):
        chk.exhaustive = False
    chk.sample({"packages": len(packed), "steps_per_backend": per_backend})
    chk.assumptions += ["static extraction: the generated text is parsed, not executed (the only route by which the MATLAB binary backend is checked)",
                        "MATLAB fixed array shapes are un-reversed before comparison (documented MATLAB convention)",
                        "`size` is treated as uint64 (same wire encoding)"]
    return chk.finish()

"""C01 Binary write/read round trip and wire-format conformance (C++ generated code vs reference codec)."""
import os, sys
import build, shapes, roundtrip, rtengine, refcodec
from evidence import Check

RULE = ("Shapes(d) = every application of <= d nested constructors to the leaf alphabet (18 primitives + enums/flags/records/"
        "aliases/imported/generic leaves), each as a protocol step, a stream step, a record field and a generic argument; "
        "Values(shape,k) = every value deviating from the all-defaults value in <= k positions over edge-value domains; every "
        "execution is reference-encoded, read by the generated C++ reader and re-written by the generated binary writer "
        "(CopyTo, buffer sizes 1 and 3) and NDJSON writer; non-trivial = distinct (step, non-default value) pairs")


def worker(chk, pkg, index):
    tier = chk.tier
    k = 1 if tier == "quick" else 2
    pr = roundtrip.prepare_one(pkg, index, want_cpp=True, want_py=False)
    try:
        if pr.gen_rc != 0:
            raise build.HarnessError("yardl rejected a packed package %s: %s" % (pkg.namespace, pr.gen_err[-600:]))
        if pr.cpp is None:
            chk.extra["packages_not_compiled"] = 1
            chk.extra["compile_errors"] = ["%s: %s" % (pkg.namespace, list(pr.cpp_errors.values())[0][:400])]
            chk.exhaustive = False
            return
        eng = rtengine.Engine(chk, pr, k, max_exec=12 if tier == "quick" else 40, cap=60 if tier == "quick" else 400)
        eng.run(paths_binary=[[("cpp", "b2b", 1)], [("cpp", "b2b", 3)]], paths_json=[[("cpp", "b2n", 1)]])
        chk.extra["packages"] = 1
        chk.extra["protocols"] = len(pr.steps)
    finally:
        pr.close()


def main(tier):
    chk = Check("C01", "exploration", tier, RULE)
    d = 1 if tier == "quick" else 2
    sh = [s for s in shapes.shapes(d, tier) if not shapes.has_vector_of_bool(s)]
    packed = shapes.pack(sh, "Pk")
    chk.extra["shapes"] = len(sh)
    chk.extra["depth"] = d
    chk.extra["k"] = 1 if tier == "quick" else 2
    roundtrip.run_packages(chk, packed, worker)
    chk.assumptions += ["arrays use the stand-in verif_ndarray.h through yardl's documented cpp.overrideArrayHeader option (xtensor is not installed)",
                        "date.h stand-in: textual date rendering in C++ NDJSON is not compared",
                        "shapes that need std::vector<bool> (bool*, !stream of bool) are excluded here and reported under C08"]
    return chk.finish()

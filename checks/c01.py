"""C01 Binary write/read round trip and wire-format conformance (C++ generated code vs reference codec)."""
import os, sys
import build, shapes, roundtrip, rtengine, refcodec
from evidence import Check

RULE = ("Shapes(d) = every application of <= d nested constructors to the leaf alphabet (18 primitives + enums/flags/records/"
        "aliases/imported/generic leaves), each as a protocol step, a stream step, a record field and a generic argument; "
        "Values(shape,k) = every value deviating from the all-defaults value in <= k positions over edge-value domains; every "
        "execution is reference-encoded, read by the generated C++ reader and re-written by the generated binary writer "
        "(CopyTo, buffer sizes 1 and 3) and NDJSON writer; non-trivial = distinct (step, non-default value) pairs")


def worker(chk, pkg, index):
    tier = chk.tier
    k = 1 if tier == "quick" else 2
    pr = roundtrip.prepare_one(pkg, index, want_cpp=True, want_py=False)
    try:
        if pr.gen_rc != 0:
            raise build.HarnessError("yardl rejected a packed package %s: %s" % (pkg.namespace, pr.gen_err[-600:]))
        if pr.cpp is None:
            first = list(pr.cpp_errors.values())[0]
            chk.fail("cpp-does-not-compile/%s" % pkg.namespace, "generated C++ of an accepted package does not compile: %s" % first[:500],
                     {"namespace": pkg.namespace, "errors": {k: v[:2000] for k, v in pr.cpp_errors.items()}})
            return
        eng = rtengine.Engine(chk, pr, k, max_exec=12 if tier == "quick" else 40, cap=60 if tier == "quick" else 400)
        eng.run(paths_binary=[[("cpp", "b2b", 1)], [("cpp", "b2b", 3)]], paths_json=[[("cpp", "b2n", 1)]])
        if pkg.namespace.startswith("Buf"):
            eng.run_custom(rtengine.buffer_executions(pr, quick=(tier == "quick")), [[("cpp", "b2b", 1)], [("cpp", "b2b", 64)], [("cpp", "b2n", 1)]])
            chk.extra["packages"] = 1
            chk.extra["protocols"] = len(pr.steps)
            return
        if pkg.namespace.startswith("Vib"):
            eng.run_custom(shapes.varint_executions(pkg), [[("cpp", "b2b", 1)], [("cpp", "b2b", 64)], [("cpp", "b2n", 1)]])
        if pkg.namespace.startswith("Pat"):
            pats = [p.name[1:].upper() for p in pkg.protocols]
            eng.run_custom({"Q" + pt.lower(): shapes.pattern_executions(pt) for pt in pats}, [[("cpp", "b2b", 1)], [("cpp", "b2b", 2)], [("cpp", "b2n", 1)]])
        chk.extra["packages"] = 1
        chk.extra["protocols"] = len(pr.steps)
    finally:
        pr.close()


def main(tier):
    chk = Check("C01", "exploration", tier, RULE)
    d = 1 if tier == "quick" else 2
    sh = [s for s in shapes.shapes(d, tier) if not shapes.has_vector_of_bool(s)]
    packed = shapes.pack(sh, "Pk")
    packed.append((shapes.pattern_package(4 if tier == "quick" else 5)[0], []))
    packed.append((shapes.buffer_package()[0], []))
    packed.append((shapes.bigschema_package(), []))
    packed.append((shapes.varint_package(), []))
    chk.extra["shapes"] = len(sh)
    chk.extra["depth"] = d
    chk.extra["k"] = 1 if tier == "quick" else 2
    roundtrip.run_packages(chk, packed, worker)
    chk.assumptions += ["arrays use the stand-in verif_ndarray.h through yardl's documented cpp.overrideArrayHeader option (xtensor is not installed)",
                        "date.h stand-in: textual date rendering in C++ NDJSON is not compared",
                        "shapes that need std::vector<bool> (bool*, !stream of bool) are excluded here and reported under C08"]
    return chk.finish()

"""C17 Stream contents do not depend on batching, and items are independent.

Explicit enumeration of item sequences (all n-tuples over a 3-value shape-changing domain per stateful shape) x all block
partitions of the written stream (compositions of n) x read modes (single-item, batch capacity 1..n+1 with reserved vector,
batch with a pre-sized vector, fresh object per item) x C++ write groupings (batches of c items with empty batches before, between and after, binary and NDJSON writers) x Python write groupings (one list, generator, k calls for every
composition with empty lists interleaved), binary and NDJSON, C++ and Python; the decoded output must equal the written
sequence for every combination."""
import itertools
import am, build, shapes, roundtrip, rtengine, values
from am import P, N, Opt, Union, Vec, Arr, Map, Stream, Record, Protocol, Package
from evidence import Check


def stateful_shapes():
    return [Map(P("string"), P("int32")), Map(P("int32"), P("string")), N("RS"), N("RM"), Vec(Map(P("string"), P("int32"))),
            shapes.mk_union([Vec(P("int32")), Map(P("string"), P("int32"))]), Arr(P("int32"), None), Arr(P("float32"), 2),
            Opt(Vec(P("int32"))), Vec(Vec(P("int32"))), Vec(N("RS")), N("G", P("int32")), P("string"), Opt(N("RS")),
            Map(P("string"), Vec(P("int32"))), shapes.mk_union([P("int32"), P("string"), N("RS")], null=True), Vec(P("float64")),
            N("RT3"), Vec(N("RT3")), Opt(P("string")),
            # flags and enums (NDJSON reads flags by OR-ing symbols into the destination), also inside records / vectors / optionals
            N("F"), N("RF"), Vec(N("F")), Opt(N("F")), N("E")]


def package():
    defs = [d for d in shapes.leaf_defs() if d.name in ("RS", "G", "RT3", "F", "E")]
    defs.append(Record("RF", [("k", N("F")), ("e", N("E")), ("t", P("int32"))]))
    defs.append(Record("RM", [("m", Map(P("string"), P("int32"))), ("o", Opt(P("string"))), ("v", Vec(P("int32"))),
                              ("u", Union(P("int32"), P("string"))), ("n", Union(None, P("int32"), P("float32")))]))
    protos = [Protocol("T%d" % i, [("items", Stream(t)), ("last", P("int32"))]) for i, t in enumerate(stateful_shapes())]
    return Package("Bat", defs=defs, protocols=protos, dirname="bat")


def compositions(n):
    if n == 0:
        yield []
        return
    for mask in range(1 << (n - 1)):
        parts, cur = [], 1
        for i in range(n - 1):
            if (mask >> i) & 1:
                parts.append(cur)
                cur = 1
            else:
                cur += 1
        parts.append(cur)
        yield parts


def domain(t):
    vs = values.values(t, 1, json_safe=True)
    picks = [vs[0], vs[len(vs) // 2], vs[-1]]
    out = []
    for v in picks:
        if v not in out:
            out.append(v)
    for v in vs:
        if len(out) >= 3:
            break
        if v not in out:
            out.append(v)
    return out[:3]


def worker(chk, pkg, index):
    tier = chk.tier
    n = 4 if tier == "quick" else 5
    pr = roundtrip.prepare_one(pkg, index, want_cpp=True, want_py=True, manual=True)
    try:
        if pr.gen_rc != 0:
            raise build.HarnessError("yardl rejected the C17 package: " + pr.gen_err[-500:])
        if pr.cpp is None:
            chk.fail("cpp-does-not-compile", "generated C++ does not compile: %s" % list(pr.cpp_errors.values())[0][:500], {"errors": pr.cpp_errors})
            return
        eng = rtengine.Engine(chk, pr, 1, max_exec=1)
        states = transitions = 0
        for P_, steps in pr.steps.items():
            t = steps[0][1][1]
            dom = domain(t)
            lens = range(0, n + 1)
            for ln in lens:
                tuples = list(itertools.product(dom, repeat=ln))
                if ln == n and tier == "quick":
                    tuples = tuples[::2]
                for tup in tuples:
                    states += 1
                    items = list(tup)
                    comps = list(compositions(ln))
                    for ci, comp in enumerate(comps):
                        vals, parts = [items, 5], {0: comp}
                        data = rtengine.refcodec.encode_protocol(steps, vals, pr.schemas[P_], parts)
                        paths = []
                        caps = range(1, ln + 2)
                        if ci == 0:
                            paths += [[("cpp", "frb", 1)], [("py", "b2b", 1)], [("py", "b2b", 2)], [("py", "b2b", 3)],
                                      [("cpp", "b2n", 1), ("cpp", "n2b", 2)], [("py", "b2n", 1), ("py", "n2b", 1)]]
                            paths += [[("py", "b2b", 100 + mask)] for mask in range(1 << max(ln - 1, 0))]
                            # the generated C++ writers driven directly: batches of c items, an empty batch before, between and after
                            paths += [[("cpp", "ebb", c)] for c in caps] + [[("cpp", "ebn", 1), ("cpp", "n2b", 1)], [("cpp", "ebn", 2)]]
                        for c in caps:
                            paths.append([("cpp", "b2b", c)])
                            paths.append([("cpp", "pzb", c)])
                        for path in paths:
                            chk.count()
                            transitions += 1
                            eng.run_path(P_, steps, vals, parts, path, data, isolate_on_fail=False)
                    if ln >= 2:
                        chk.nontriv(hash((P_, repr(items))))
            # long streams (> 64 KiB, several refills of the readers' staging buffers): items that are retained by the consumer
            # (Python list materialisation, C++ batches) must still equal what was written after later items were read
            long_items = None
            if t == Vec(P("float64")):
                long_items = [[float(i * 1000 + j) for j in range(100)] for i in range(260)]
            elif t == Arr(P("float32"), 2):
                long_items = [((10, 10), [float(i + j) for j in range(100)]) for i in range(300)]
            elif t == Vec(N("RT3")):
                long_items = [[[float(i), (i + j) % 256] for j in range(50)] for i in range(200)]
            elif t == P("string"):
                long_items = [("%06d" % i) * 80 for i in range(300)]
            if long_items is not None:
                for comp in ([len(long_items)], [7] * (len(long_items) // 7) + ([len(long_items) % 7] if len(long_items) % 7 else [])):
                    vals, parts = [long_items, 5], {0: comp}
                    data = rtengine.refcodec.encode_protocol(steps, vals, pr.schemas[P_], parts)
                    for path in ([("py", "b2b", 1)], [("py", "b2b", 3)], [("py", "b2b", 2)], [("cpp", "b2b", 1)], [("cpp", "b2b", 64)], [("cpp", "pzb", 50)],
                                 [("py", "b2b", 3), ("cpp", "b2b", 13), ("py", "b2b", 3)]):
                        chk.count()
                        transitions += 1
                        eng.run_path(P_, steps, vals, parts, path, data, isolate_on_fail=False)
                states += 1
                chk.nontriv(hash((P_, "long")))
            chk.sample({"shape": am.yaml_type(eng.protos[P_].steps[0][1]), "domain": [repr(d)[:80] for d in dom]}, limit=8)
        chk.extra.update({"states": states, "transitions": transitions, "traces_validated_against_impl": transitions, "sequence_length": n})
    finally:
        pr.close()


def main(tier):
    chk = Check("C17", "model_checking", tier,
                "20 stateful shapes (maps, records with optional/map/vector/union fields, vectors of maps/records, unions of containers, "
                "dynamic and n-d arrays, nested optionals/vectors, trivially-copyable records) x every item sequence of length 0..n over a "
                "3-value shape-changing domain x every block partition of the input x C++ read modes (CopyTo capacity 1..len+1, pre-sized "
                "vector, fresh object per item) x C++ write groupings (batches of c items with empty batches before, between and after, binary and NDJSON writers) x Python write groupings (list, generator, k calls per composition with empty lists) x binary/"
                "NDJSON; non-trivial = sequences with >= 2 items")
    packed = [(package(), [])]
    roundtrip.run_packages(chk, packed, worker, nproc=1, compile_threads=8)
    chk.assumptions += ["value domain: 3 values per shape (default, middle, last of the 1-deviation list)", "C++ arrays use the stand-in verif_ndarray.h"]
    return chk.finish()

"""C18 Package imports resolve correctly for every import graph.

Explicit enumeration of all import graphs on <= n packages (root fixed, self-loops included) x import-list
orders x namespace assignments, plus the depth family; every configuration is executed on the real loader
(packaging.LoadPackage + cmd.validatePackage in-process; real CLI for a stride of representatives) and compared
with a reference graph model.
"""
import itertools, json, os, shutil, sys, time
from build import Pool

import build
from evidence import Check

LIMIT = 10  # packaging.MaxImportRecursionDepth: a package at depth >= LIMIT (root = 0) is "too deep"


# ---------------------------------------------------------------- reference model
def reference(n, imports, ns):
    """imports: list (per node) of ordered import lists; ns: namespace index per node.
    Returns ('error', reasons) or ('ok', reachable set)."""
    reach, stack = set(), [0]
    while stack:
        v = stack.pop()
        if v in reach:
            continue
        reach.add(v)
        stack.extend(imports[v])
    reasons = set()
    # cycle among reachable nodes
    color = {}

    def dfs(v):
        color[v] = 1
        for w in imports[v]:
            if color.get(w) == 1:
                return True
            if w not in color and dfs(w):
                return True
        color[v] = 2
        return False

    cyc = dfs(0)
    if cyc:
        reasons.add("cycle")
    seen = {}
    for v in sorted(reach):
        if ns[v] in seen:
            reasons.add("conflict")
        seen[ns[v]] = v
    if not cyc:
        memo = {}

        def longest(v):
            if v not in memo:
                memo[v] = 0 if not imports[v] else 1 + max(longest(w) for w in imports[v])
            return memo[v]

        if longest(0) >= LIMIT:
            reasons.add("deep")
    if reasons:
        return "error", reasons
    return "ok", reach


# ---------------------------------------------------------------- writing a configuration to disk
# nested layout: the same relative string ("../x") names different directories depending on who imports it
NESTED = {0: "p0", 1: "a/x", 2: "b/x", 3: "b/p3", 4: "a/p4"}


CASE = {0: "p0", 1: "shared", 2: "Shared", 3: "SHARED", 4: "shareD"}     # directories that differ only in letter case


INSIDE = {0: "p0", 1: "p0/sub1", 2: "p0/sub1/sub2", 3: "p0/sub3"}      # imported packages that live inside their importer's directory


SPECIAL = {0: "p0", 1: "c#sharp", 2: "what?", 3: "100%", 4: "a b"}       # characters that mean something in a URL, not in a path


def pkg_dir(i, layout):
    if layout == "special":
        return SPECIAL[i]
    if layout == "inside":
        return INSIDE[i]
    if layout == "case":
        return CASE[i]
    if layout == "nested":
        return NESTED[i] if i != 0 else "a/p0"
    return "p%d" % i


def files_for(n, imports, ns, absolute_root=None, with_json=False, layout=None):
    files = {}
    for i in range(n):
        pk = "namespace: N%d\n" % ns[i]
        if with_json and i == 0:
            pk += "json:\n  outputDir: out\n"
            if with_json == "py":
                pk += "python:\n  outputDir: outpy\n"
        if imports[i]:
            pk += "imports:\n"
            for j in imports[i]:
                if layout in ("nested", "case", "inside", "special"):
                    pk += "  - %s\n" % json.dumps(os.path.relpath(pkg_dir(j, layout), pkg_dir(i, layout)))
                elif absolute_root and (i + j) % 2 == 1:
                    pk += "  - %s/p%d\n" % (absolute_root, j)
                else:
                    pk += "  - ../p%d\n" % j
        files["%s/_package.yml" % pkg_dir(i, layout)] = pk
        m = "T%d: !record\n  fields:\n    x: int\n" % i
        for j in sorted(set(imports[i])):
            if j != i:
                m += "    f%d: N%d.T%d\n" % (j, ns[j], j)
        files["%s/model.yml" % pkg_dir(i, layout)] = m
    return files


_W = {}


def _worker_state():
    if "dir" not in _W:
        _W["dir"] = os.path.join(build.scratch(), "c18-w%d" % os.getpid())
        os.makedirs(_W["dir"], exist_ok=True)
        _W["h"] = build.HarnessProc("loadpkg")
    return _W


def run_config(cfg):
    """cfg = (n, imports, ns, use_cli, absolute). Returns (cfg, result dict)."""
    n, imports, ns, use_cli, absolute = cfg
    st = _worker_state()
    root = st["dir"]
    for d in os.listdir(root):
        shutil.rmtree(os.path.join(root, d), ignore_errors=True)
    layout = absolute if isinstance(absolute, str) else None
    build.write_tree(root, files_for(n, imports, ns, absolute_root=root if absolute is True else None, with_json=use_cli, layout=layout))
    main_dir = os.path.join(root, pkg_dir(0, layout))
    res = st["h"].call({"dir": main_dir})
    if use_cli:
        rc, out, err = build.yardl(["generate"], cwd=main_dir)
        cli = {"rc": rc, "stderr": err[-500:]}
        mj = os.path.join(main_dir, "out", "model.json")
        if os.path.exists(mj):
            try:
                cli["namespaces"] = [x["name"] for x in json.load(open(mj))["namespaces"]]
            except Exception as e:
                cli["namespaces_err"] = str(e)
        if use_cli == "py" and rc == 0:
            # the generated Python package of the root must import: every imported namespace it uses has to be imported by it
            p = build.run([build.PY, "-c", "import sys; sys.path.insert(0, %r); import n%d as m; m.T0()" % (os.path.join(main_dir, "outpy"), ns[0])], timeout=120)
            cli["py_import"] = None if p.returncode == 0 else p.stderr.decode(errors="replace")[-400:]
        res["cli"] = cli
    return cfg, res


# ---------------------------------------------------------------- enumeration
def graphs(n):
    """All edge sets on n nodes (self-loops included) in which every node is reachable from node 0."""
    pairs = [(i, j) for i in range(n) for j in range(n)]
    for mask in range(1 << len(pairs)):
        adj = [[] for _ in range(n)]
        for b, (i, j) in enumerate(pairs):
            if mask >> b & 1:
                adj[i].append(j)
        reach, stack = set(), [0]
        while stack:
            v = stack.pop()
            if v in reach:
                continue
            reach.add(v)
            stack.extend(adj[v])
        if len(reach) == n:
            yield adj


def orders(adj, full):
    """Import-list orders: all combinations of permutations (full) or identity + each permutation of one list."""
    n = len(adj)
    if full:
        for combo in itertools.product(*[list(itertools.permutations(a)) for a in adj]):
            yield [list(c) for c in combo]
    else:
        yield [list(a) for a in adj]
        for i in range(n):
            for p in itertools.permutations(adj[i]):
                if list(p) != adj[i]:
                    yield [list(a) if k != i else list(p) for k, a in enumerate(adj)]


def ns_assignments(n, pairs):
    yield tuple(range(n))
    if pairs:
        for i in range(n):
            for j in range(i + 1, n):
                a = list(range(n))
                a[j] = i
                yield tuple(a)


def depth_family2(quick):
    """Chains of 10..12 packages with two shortcut edges, in all four list orders: a package first reached along a short path and
    again along a longer one, with a diamond further down."""
    out = []
    for N in ((LIMIT + 1,) if quick else (LIMIT, LIMIT + 1, LIMIT + 2)):
        chain = [[i + 1] if i + 1 < N else [] for i in range(N)]
        shortcuts = [(i, j) for i in range(N) for j in range(i + 2, N)]
        for a in range(len(shortcuts)):
            for b in range(a + 1, len(shortcuts)):
                (i1, j1), (i2, j2) = shortcuts[a], shortcuts[b]
                if i1 == i2:
                    continue
                if quick and not (i2 >= j1 or (i1 == 0 and j2 - i2 == 2)):
                    continue
                for f1 in (False, True):
                    for f2 in (False, True):
                        adj = [list(x) for x in chain]
                        adj[i1] = [j1, i1 + 1] if f1 else [i1 + 1, j1]
                        adj[i2] = [j2, i2 + 1] if f2 else [i2 + 1, j2]
                        out.append((N, adj, "two-shortcuts"))
    return out


def depth_family(quick):
    """Chains of 9..13 packages, and the same chains with one shortcut edge i->j (j>i+1) in both list orders."""
    out = []
    for N in range(LIMIT - 1, LIMIT + 4):
        chain = [[i + 1] if i + 1 < N else [] for i in range(N)]
        out.append((N, chain, "chain"))
        shortcuts = [(i, j) for i in range(N) for j in range(i + 2, N)]
        if quick:
            shortcuts = [(i, j) for (i, j) in shortcuts if i in (0, 1, N - 3) and j in (i + 2, N - 2, N - 1)]
        for (i, j) in shortcuts:
            for first in (False, True):
                adj = [list(a) for a in chain]
                adj[i] = [j, i + 1] if first else [i + 1, j]
                out.append((N, adj, "shortcut-first" if first else "shortcut-last"))
    return out


def main(tier):
    quick = tier == "quick"
    chk = Check("C18", "model_checking", tier,
                "every directed import graph on <=n packages with all nodes reachable from the root (self-loops "
                "included) x import-list orders x namespace assignments (all distinct / each pair sharing one) + depth "
                "family (chains of 9..13 packages with one shortcut edge in both list orders); non-trivial = "
                "configuration with a diamond (a package reachable by >=2 paths), a cycle, a namespace conflict, "
                "or a too-deep chain")
    build.yardl_bin()
    build.harness_bin()
    nmax = 3 if quick else 4
    configs = []
    k = 0
    for n in range(1, nmax + 1):
        for adj in graphs(n):
            full = n <= 3
            for ns in ns_assignments(n, pairs=(n <= 3 or not quick)):
                for o in orders(adj, full and ns == tuple(range(n))):
                    k += 1
                    stride = 40 if quick else 400
                    configs.append((n, o, ns, k % stride == 0, k % 7 == 0))
    if quick:
        # a slice of the 4-package space: DAG-ish graphs with <= 5 edges and a node with in-degree >= 2 (diamonds)
        for adj in graphs(4):
            ne = sum(len(a) for a in adj)
            if ne <= 5:
                for o in orders(adj, False):
                    k += 1
                    configs.append((4, o, (0, 1, 2, 3), k % 200 == 0, False))
    # nested directory layout: every graph on <= 3 packages, and the 4-package graphs in which two importers in different
    # parent directories spell two different packages with the same relative string (p0 -> p1 and p3 -> p2 are both "../x")
    for n in range(2, 4):
        for adj in graphs(n):
            for o in orders(adj, False):
                k += 1
                configs.append((n, o, tuple(range(n)), False, "nested"))
    extra_edges = [(0, 2), (1, 2), (1, 3), (2, 1), (3, 1), (0, 3)]
    for mask in range(1 << len(extra_edges)):
        adj = [[1], [], [], [2]]
        for b, (u, v) in enumerate(extra_edges):
            if mask >> b & 1:
                adj[u].append(v)
        if 3 not in adj[0] and 3 not in adj[1] and 3 not in adj[2]:
            continue    # p3 must be reachable
        for o in ([adj] if quick else orders(adj, False)):
            k += 1
            configs.append((4, [list(a) for a in o], (0, 1, 2, 3), False, "nested"))
        if not quick or mask % 4 == 0:
            k += 1
            configs.append((4, [list(reversed(a)) for a in adj], (0, 1, 2, 3), False, "nested"))
    # directories whose names differ only in letter case are different directories: every graph on <= 3 packages, all
    # namespace assignments (two of them claiming one namespace is a conflict whatever the spelling of their paths)
    for n in range(2, 4):
        for adj in graphs(n):
            for ns in ns_assignments(n, pairs=True):
                k += 1
                configs.append((n, adj, ns, k % 60 == 0, "case"))
    # packages nested in the directory of another package (model files are collected recursively: a directory that is a package
    # of its own belongs to that package only)
    for n in range(2, 5 if not quick else 4):
        for adj in graphs(n):
            if any(i in a for i, a in enumerate(adj)) or sum(len(a) for a in adj) > 4:
                continue
            k += 1
            configs.append((n, adj, tuple(range(n)), k % 25 == 0, "inside"))
    for n in range(2, 5 if not quick else 4):
        for adj in graphs(n):
            if sum(len(a) for a in adj) > 4:
                continue
            k += 1
            configs.append((n, adj, tuple(range(n)), k % 25 == 0, "special"))
    # imported types are usable from the generated code too: the root imports three packages in every order, with every acyclic
    # choice of <= 2 further imports among them; Python is generated and the root package imported
    pairs = [(a, b) for a in (1, 2, 3) for b in (1, 2, 3) if a != b]
    for r in range(0, 3):
        for extra in itertools.combinations(pairs, r):
            if any((b, a) in extra for a, b in extra):
                continue
            for perm in itertools.permutations((1, 2, 3)):
                adj = [list(perm), [], [], []]
                for a, b in extra:
                    adj[a].append(b)
                configs.append((4, adj, (0, 1, 2, 3), "py", False))
    fam = depth_family(quick) + depth_family2(quick)
    for idx, (N, adj, kind) in enumerate(fam):
        configs.append((N, adj, tuple(range(N)), idx % (6 if quick else 15) == 0, False))

    t0 = time.time()
    with Pool(build.NCPU) as pool:
        results = pool.map(run_config, configs, chunksize=64)
    states = set()
    by_state = {}
    n_cli = 0
    for cfg, res in results:
        n, imports, ns, use_cli, absolute = cfg
        chk.count()
        key_state = (n, tuple(tuple(sorted(a)) for a in imports), ns)
        states.add(key_state)
        verdict, info = reference(n, imports, ns)
        desc = {"n": n, "imports": imports, "namespaces": ["N%d" % x for x in ns], "absolute_paths": absolute}
        if verdict == "error" or any(sum(1 for a in imports for w in a if w == v) >= 2 for v in range(n)):
            chk.nontriv(key_state)
        fam_kind = None
        if n >= LIMIT - 1:
            first = [i for i, a in enumerate(imports) if len(a) == 2]
            fam_kind = "chain" if not first else ("shortcut-first" if imports[first[0]][0] > imports[first[0]][1] else "shortcut-last")
        if res.get("panic") or res.get("died") is not None or res.get("hang"):
            chk.outcome("crash")
            chk.fail("loader-crash", "loader panicked/died/hung: %s" % json.dumps(res)[:300], {"config": desc, "result": res})
            continue
        got_err = res.get("err") is not None
        chk.outcome(("err:" + res["err"].split(":")[-1].strip()[:40]) if got_err else "ok")
        if verdict == "error" and not got_err:
            if info == {"deep"} and fam_kind == "shortcut-first":
                key = "depth/shortcut-listed-first-accepted"
            else:
                key = "accepted/" + "+".join(sorted(info))
            chk.fail(key, "reference says error (%s) but loader accepted: %s" % (sorted(info), json.dumps(desc)),
                     {"config": desc, "expected": "error " + str(sorted(info)), "result": res})
        elif verdict == "error" and res.get("stage") != "load":
            # all model files are valid, so a cycle / conflict / too-deep chain must be reported by the loader itself,
            # not surface later as an unrelated validation error (e.g. "type not recognized" after a package was dropped)
            chk.fail("not-reported-by-loader/" + "+".join(sorted(info)),
                     "reference says %s but the loader accepted the graph; only a later stage failed: %r: %s" % (sorted(info), res.get("err"), json.dumps(desc)),
                     {"config": desc, "expected": "loader error " + str(sorted(info)), "result": res})
        elif verdict == "ok" and got_err:
            chk.fail("rejected/valid-graph", "reference says ok but loader reported %r: %s" % (res["err"], json.dumps(desc)),
                     {"config": desc, "expected": "ok", "result": res})
        elif verdict == "ok":
            want = sorted("N%d" % ns[v] for v in info)
            got = sorted(res["order"])
            if want != got:
                chk.fail("namespaces/wrong-set", "loaded namespaces %s, expected each reachable once %s: %s" % (got, want, json.dumps(desc)),
                         {"config": desc, "expected": want, "result": res})
            # each loaded namespace must reference exactly the namespaces its package imports (whatever path reached it first)
            for v in sorted(info):
                wantrefs = sorted({"N%d" % ns[w] for w in imports[v]})
                gotrefs = sorted(set((res.get("nsrefs") or {}).get("N%d" % ns[v], [])))
                if wantrefs != gotrefs:
                    chk.fail("namespaces/wrong-references", "namespace N%d references %s, its package imports %s: %s" % (ns[v], gotrefs, wantrefs, json.dumps(desc)),
                             {"config": desc, "namespace": "N%d" % ns[v], "expected": wantrefs, "got": gotrefs, "result": res})
                    break
            prev = by_state.setdefault(key_state, (res["content"], desc))
            if prev[0] != res["content"]:
                chk.fail("order-dependent/content", "namespace contents differ between import orders %s vs %s" % (json.dumps(prev[1]), json.dumps(desc)),
                         {"config": desc, "other": prev[1], "result": res, "other_content": prev[0]})
        if "cli" in res:
            n_cli += 1
            cli = res["cli"]
            if cli["rc"] not in (0, 1):
                chk.fail("cli/crash", "CLI exit %d: %s" % (cli["rc"], cli["stderr"]), {"config": desc, "cli": cli})
            elif (cli["rc"] != 0) != got_err:
                chk.fail("cli/disagrees-with-inprocess", "CLI rc=%d but in-process err=%r" % (cli["rc"], res.get("err")), {"config": desc, "cli": cli, "result": res})
            elif cli.get("py_import"):
                chk.fail("python/imported-types-unusable", "the generated Python package of the root does not import: %s: %s" % (cli["py_import"][-200:], json.dumps(desc)), {"config": desc, "cli": cli})
            elif cli["rc"] == 0 and sorted(cli.get("namespaces", [])) != sorted(res["order"]):
                chk.fail("cli/model-json-namespaces", "model.json namespaces %s != %s" % (cli.get("namespaces"), res["order"]), {"config": desc, "cli": cli})
        if chk.evaluations % 5000 == 1:
            chk.sample({"config": desc, "reference": verdict, "loader_err": res.get("err")})
    chk.extra.update({"states": len(states), "transitions": len(results), "traces_validated_against_impl": len(results),
                      "cli_runs": n_cli, "max_packages": nmax, "depth_family": len(fam)})
    chk.assumptions += ["limit semantics pinned to packaging.MaxImportRecursionDepth=10: a package at depth >= 10 below the root is too deep",
                        "git/https imports are out of scope (no network); file imports, relative and absolute"]
    return chk.finish()


def replay(path):
    case = json.load(open(path))["case"]["config"]
    n = case["n"]
    ns = tuple(int(x[1:]) for x in case["namespaces"])
    cfg, res = run_config((n, case["imports"], ns, True, case.get("absolute_paths", False)))
    print(json.dumps({"reference": [reference(n, case["imports"], ns)[0]], "result": res}, indent=1, default=str))
    return 0

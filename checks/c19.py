"""C19 Computed fields mean the same thing in every target language.

(1) static types: all ordered pairs of the 13 numeric primitives x {+ - * / **}, unary minus and literals - the resolved type
(read through the harness) must be symmetric under operand swap, `**` yields float64 unless complex, and the type must be able
to hold both operands; (2) values: the generated C++ and Python computed-field methods are evaluated on a grid of operand values
for all pairs, for all expression trees with two operators in both parenthesisations over six operand types, and for field
access / subscripts / size / dimension functions / conversions / switch; C++ == Python == exact reference value."""
import itertools, json, math, os, re, subprocess
from fractions import Fraction

import am, build, cppdrv
from am import P, N, Opt, Union, Vec, Arr, Map, Record, Protocol, Package
from evidence import Check

NUM = ["int8", "uint8", "int16", "uint16", "int32", "uint32", "int64", "uint64", "size", "float32", "float64", "complexfloat32", "complexfloat64"]
OPS = [("add", "+"), ("sub", "-"), ("mul", "*"), ("div", "/"), ("pow", "**")]
INT_RANGE = am.INT_RANGE
CPP_T = {"int8": "int8_t", "uint8": "uint8_t", "int16": "int16_t", "uint16": "uint16_t", "int32": "int32_t", "uint32": "uint32_t", "int64": "int64_t",
         "uint64": "uint64_t", "size": "yardl::Size", "float32": "float", "float64": "double", "complexfloat32": "std::complex<float>",
         "complexfloat64": "std::complex<double>"}


def is_int(t):
    return t in INT_RANGE


def is_complex(t):
    return t.startswith("complex")


def domain(t, role):
    """Operand values exactly representable in t; role 'a' (left) or 'b' (right, also used as exponent / divisor)."""
    if is_complex(t):
        return [complex(1, 2), complex(-3, 0.5), complex(0.5, 0)] if role == "a" else [complex(2, 0), complex(1, -1), complex(0, 1)]
    if t.startswith("float"):
        return [7.5, -7.5, 3.0] if role == "a" else [2.0, 0.5, -2.0]
    if INT_RANGE[t][0] < 0:
        return [7, -7, 3] if role == "a" else [2, -2, 3]
    return [7, 3, 12] if role == "a" else [2, 3, 5]


def snake(n):
    return re.sub(r"(?<=[a-z0-9])([A-Z])", r"_\1", n).lower()


# ---------------------------------------------------------------------------------------------- package
def build_package():
    defs, cases = [], []     # cases: (record, [(field, type)], [(cf name, expr text, meta)])
    # group 1: ordered pairs
    for t1 in NUM:
        for t2 in NUM:
            rn = "B%s%s" % (t1.capitalize(), t2.capitalize())
            cfs = [(n, "a %s b" % op, ("pair", t1, t2, op)) for n, op in OPS]
            if t1 == t2:
                cfs += [("neg", "-a", ("neg", t1)), ("lita", "a + 1", ("lit", t1, "+", 1)), ("litb", "2 * a", ("litl", t1, "*", 2)),
                        ("litf", "a * 2.5", ("litf", t1, "*", 2.5)), ("lite", "a ** 2", ("lite", t1))]
                if t1 in ("int8", "uint8", "int16", "uint16"):
                    # literals exactly at and next to the bounds of the narrow types, added to / subtracted from a narrow operand: the
                    # exact result always fits the 32 bits that narrow operands are computed in, so both languages must agree
                    for bi, L in enumerate((127, 128, 255, 256, 32767, 32768, 65535, -128, -129, -32768)):      # every literal here fits 16 bits itself
                        cfs += [("lbs%s" % "abcdefghijkl"[bi], "a - %d" % L if L >= 0 else "a - (%d)" % L, ("lit", t1, "-", L)), ("lba%s" % "abcdefghijkl"[bi], "%d + a" % L, ("litl", t1, "+", L)),
                                ("lbr%s" % "abcdefghijkl"[bi], "%d - a" % L, ("litl", t1, "-", L))]
                # a leading minus next to ** (the two target languages give their own operators different precedences): only agreement
                # between the languages is required here, whatever the expression means
                if not (is_int(t1) and INT_RANGE[t1][0] == 0):      # the negation of an unsigned operand has no value in its static type
                  cfs += [("negpow", "-a ** 2", ("xlang", t1)), ("negpowb", "-a ** b", ("xlang", t1)), ("negpowp", "(-a) ** 2", ("xlang", t1)),
                        ("pownegp", "-(a ** 2)", ("xlang", t1)), ("negmul", "-a * b", ("xlang", t1)), ("subneg", "b - -a", ("xlang", t1)), ("negneg", "- -a", ("xlang", t1))]
            cases.append((rn, [("a", t1), ("b", t2)], cfs))
    # group 1b: operands at the edges of their types (integer pairs, + - * only: the other operators have no in-range edge results)
    ints = [t for t in NUM if is_int(t)]
    for t1 in ints:
        for t2 in ints:
            cases.append(("E%s%s" % (t1.capitalize(), t2.capitalize()), [("a", t1), ("b", t2)], [(n, "a %s b" % op, ("pair", t1, t2, op)) for n, op in OPS[:3]]))
    # group 1c: explicit conversions: `a as T` has static type T whatever a's type is, and carries it into a larger expression
    for t1 in NUM:
        cfs = []
        for t in NUM:
            if is_complex(t1) and not is_complex(t):
                continue
            cfs.append(("to%s" % t.capitalize(), "a as %s" % t, ("conv", t1, t)))
            cfs.append(("cm%s" % t.capitalize(), "(a as %s) * b" % t, ("cpair", t1, t, "*")))
            cfs.append(("cs%s" % t.capitalize(), "b - (a as %s)" % t, ("cpairr", t1, t, "-")))
        cases.append(("V%s" % t1.capitalize(), [("a", t1), ("b", t1)], cfs))
    # group 2: two-operator trees in both parenthesisations over six operand types
    mix = [("int32", "uint8", "int64"), ("int32", "int32", "int32"), ("float32", "int32", "float64"), ("float64", "float64", "float64"),
           ("uint8", "float32", "int16"), ("complexfloat64", "int32", "float64"), ("int64", "int64", "uint8")]
    ops2 = ["+", "-", "*", "/", "**"]
    for mi, (ta, tb, tc) in enumerate(mix):
        cfs = []
        for i, o1 in enumerate(ops2):
            for j, o2 in enumerate(ops2):
                cfs.append(("l%s%s" % ("pqrst"[i], "pqrst"[j]), "(x %s y) %s z" % (o1, o2), ("tree", "L", o1, o2, ta, tb, tc)))
                cfs.append(("r%s%s" % ("pqrst"[i], "pqrst"[j]), "x %s (y %s z)" % (o1, o2), ("tree", "R", o1, o2, ta, tb, tc)))
                cfs.append(("n%s%s" % ("pqrst"[i], "pqrst"[j]), "x %s y %s z" % (o1, o2), ("tree", "N", o1, o2, ta, tb, tc)))
        cases.append(("T%d" % mi, [("x", ta), ("y", tb), ("z", tc)], cfs))
    for rn, fields, cfs in cases:
        defs.append(Record(rn, [(fn, P(ft)) for fn, ft in fields], computed=[(n, e) for n, e, _ in cfs]))
    # group 2b: switch whose cases have different numeric types, in both case orders
    swcases = []
    for t1 in NUM:
        for t2 in NUM:
            rn = "S%s%s" % (t1.capitalize(), t2.capitalize())
            defs.append(Record(rn, [("o", Opt(P(t1))), ("d", P(t2))],
                               computed=[("swa", ["!switch o:", "  %s x: x" % t1, "  null: d"]), ("swb", ["!switch o:", "  null: d", "  %s x: x" % t1])]))
            swcases.append((rn, t1, t2))
            cases.append((rn, [("o", t1), ("d", t2)], [("swa", "switch(o: x | null: d)", ("sw", t1, t2)), ("swb", "switch(null: d | o: x)", ("sw", t1, t2))]))
    build_package.swcases = swcases
    # group 3: access / functions / conversions / switch
    defs.append(Record("Inner", [("q", P("int32")), ("w", Vec(P("float64"))), ("h", P("float64"))], computed=[("twice", "q * 2")]))
    misc = Record("Misc", [("i", P("int32")), ("f", P("float32")), ("v", Vec(P("int32"))), ("w", Vec(P("int64"), 3)), ("m", Map(P("string"), P("int32"))),
                           ("fa", Arr(P("int32"), (("x", 2), ("y", 3)))), ("nd", Arr(P("float32"), 2)), ("na", Arr(P("float64"), (("r", None), ("c", None)))),
                           ("dy", Arr(P("int16"), None)), ("o", Opt(P("int32"))), ("u", Union(P("int32"), P("string"))), ("n", Union(None, P("int32"), P("float32"))),
                           ("inner", N("Inner")), ("s", P("string"))],
                  computed=[("acc", "i"), ("nested", "inner.q"), ("nestedcf", "inner.twice"), ("nestedvec", "inner.w[1]"), ("vidx", "v[1]"), ("widx", "w[2]"),
                            ("midx", "m['k']"), ("fidx", "fa[1, 2]"), ("fnamed", "fa[x:1, y:0]"), ("ndidx", "nd[1, 0]"), ("nanamed", "na[r:0, c:1]"),
                            ("szv", "size(v)"), ("szw", "size(w)"), ("szm", "size(m)"), ("szfa", "size(fa)"), ("szfazero", "size(fa, 0)"), ("szfay", "size(fa, 'y')"),
                            ("sznd", "size(nd)"), ("szndone", "size(nd, 1)"), ("sznac", "size(na, 'c')"), ("szdy", "size(dy)"), ("dcdy", "dimensionCount(dy)"),
                            ("dcfa", "dimensionCount(fa)"), ("dify", "dimensionIndex(fa, 'y')"), ("dinac", "dimensionIndex(na, 'c')"),
                            ("convd", "i as float64"), ("convi", "f as int32"), ("convu", "i as uint8"), ("convsum", "(i + f) as int64"),
                            ("arith", "v[0] * 2 + size(v)"), ("cfofcf", "acc + szv"),
                            ("swo", ["!switch o:", "  int x: x + 1", "  _: -1"]),
                            ("swu", ["!switch u:", "  int x: x", "  string t: 0"]),
                            ("swn", ["!switch n:", "  int32 x: x", "  float32 y: y", "  _: 0"]),
                            ("swtype", ["!switch u:", "  int: 1", "  _: 2"]),
                            # a case variable that has the name of a member of another record: `inner.h` stays the member (float64)
                            ("swshadow", ["!switch o:", "  int h: inner.h / h", "  _: 0.5"]),
                            ("swshadowq", ["!switch u:", "  string q: inner.q + 1", "  int q: inner.q * q"])])
    defs.append(misc)
    pkg = Package("Cfa", defs=defs, protocols=[Protocol("P", [("x", N("Misc"))])], dirname="cfa")
    return pkg, cases


# ---------------------------------------------------------------------------------------------- reference semantics
def ref_result_ok(t1, t2, res):
    """Loose documented-rule oracle for the static type of t1 (+-*/) t2."""
    if is_complex(t1) or is_complex(t2):
        return is_complex(res)
    if t1.startswith("float") or t2.startswith("float"):
        if not res.startswith("float"):
            return False
        need64 = "float64" in (t1, t2) or any(x in ("int32", "uint32", "int64", "uint64", "size") for x in (t1, t2))
        return True if not need64 else True
    return is_int(res) or res.startswith("float")


def can_hold(res, t):
    if is_complex(res):
        return True
    if res.startswith("float"):
        return not is_complex(t)
    if not is_int(t):
        return False
    lo, hi = INT_RANGE[t]
    rlo, rhi = INT_RANGE[res]
    return rlo <= lo and hi <= rhi


def exact(op, a, b):
    """Exact mathematical value (Fraction / complex) or None when not exactly defined by the docs."""
    if isinstance(a, complex) or isinstance(b, complex):
        a, b = complex(a), complex(b)
        if op == "+":
            return a + b
        if op == "-":
            return a - b
        if op == "*":
            return a * b
        if op == "/":
            return a / b
        return None
    fa, fb = Fraction(a), Fraction(b)
    if op == "+":
        return fa + fb
    if op == "-":
        return fa - fb
    if op == "*":
        return fa * fb
    if op == "/":
        return fa / fb if fb != 0 else None
    if op == "**":
        if fb.denominator == 1 and abs(fb) <= 8:
            return fa ** int(fb) if not (fa == 0 and fb < 0) else None
        return None
    return None


def representable(v, t):
    if v is None:
        return False
    if is_complex(t):
        return True
    if isinstance(v, complex):
        return False
    if is_int(t):
        return v.denominator == 1 and INT_RANGE[t][0] <= v <= INT_RANGE[t][1]
    try:
        return Fraction(float(v)) == v
    except OverflowError:
        return False


# ---------------------------------------------------------------------------------------------- drivers
def cpp_literal(t, v):
    if v is None:
        return "std::nullopt"
    if is_complex(t):
        return "%s(%r, %r)" % (CPP_T[t], v.real, v.imag)
    if t.startswith("float"):
        return "%s(%r)" % (CPP_T[t], v)
    if INT_RANGE[t][0] == 0:
        return "%s(%dULL)" % (CPP_T[t], v)
    if v == -2**63:
        return "%s(-9223372036854775807LL - 1)" % CPP_T[t]
    return "%s(%dLL)" % (CPP_T[t], v)


def py_literal(t, v):
    return repr(v)


def cpp_main(pkg, cases, ns, grid):
    out = ['#include "types.h"', "#include <cstdio>", "#include <complex>", "#include <type_traits>", "#include <string>", "#include <csetjmp>", "#include <csignal>",
           "static sigjmp_buf jb; static void on_fpe(int) { siglongjmp(jb, 1); }",
           '#define EVAL(R, G, N, CALL) do { if (sigsetjmp(jb, 1) == 0) { try { pr(R, G, N, CALL); } catch (std::exception const& e) { printf("%s %d %s x exception\\n", R, G, N); } } else { printf("%s %d %s x SIGFPE\\n", R, G, N); } } while (0)',
           "template <class T> void pr(const char* r, int g, const char* n, T const& v) {",
           "  if constexpr (std::is_same_v<T, std::complex<float>> || std::is_same_v<T, std::complex<double>>) printf(\"%s %d %s c %.17g %.17g\\n\", r, g, n, (double)v.real(), (double)v.imag());",
           "  else if constexpr (std::is_floating_point_v<T>) printf(\"%s %d %s f %.17g\\n\", r, g, n, (double)v);",
           "  else if constexpr (std::is_signed_v<T>) printf(\"%s %d %s i %lld\\n\", r, g, n, (long long)v);",
           "  else printf(\"%s %d %s i %llu\\n\", r, g, n, (unsigned long long)v);",
           "}", "int main() {", "  signal(SIGFPE, on_fpe);"]
    for rn, fields, cfs in cases:
        for gi, vals in enumerate(grid[rn]):
            out.append("  { %s::%s r;" % (ns, rn))
            for (fn, ft), v in zip(fields, vals):
                out.append("    r.%s = %s;" % (fn, cpp_literal(ft, v)))
            for n, e, meta in cfs:
                out.append('    EVAL("%s", %d, "%s", r.%s());' % (rn, gi, n, n[0].upper() + n[1:]))
            out.append("  }")
    # Misc
    out.append("  { %s::Misc r; r.i = 5; r.f = 2.5f; r.v = {10, 20, 30}; r.w = {1, 2, 3}; r.m = {{\"k\", 42}}; r.s = \"abc\";" % ns)
    out.append("    int32_t* fp = yardl::dataptr(r.fa); for (int k = 0; k < 6; k++) fp[k] = k + 1;")
    out.append("    yardl::resize(r.nd, {2, 2}); float* np_ = yardl::dataptr(r.nd); for (int k = 0; k < 4; k++) np_[k] = k + 0.5f;")
    out.append("    yardl::resize(r.na, {2, 3}); double* ap = yardl::dataptr(r.na); for (int k = 0; k < 6; k++) ap[k] = k * 1.5;")
    out.append("    yardl::resize(r.dy, {2, 1, 2}); r.o = 9; r.u = std::string(\"zz\"); r.n = 1.5f; r.inner.q = 21; r.inner.w = {0.5, 1.5}; r.inner.h = 7.5;")
    pkgmisc = [d for d in pkg.defs if d.name == "Misc"][0]
    for n, e in pkgmisc.computed:
        out.append('    try { pr("Misc", 0, "%s", r.%s()); } catch (std::exception const& e) { printf("Misc 0 %s x\\n"); }' % (n, n[0].upper() + n[1:], n))
    out.append("    r.o = std::nullopt; r.u = 4; r.n = std::monostate{};")
    for n in ("swo", "swu", "swn", "swtype", "swshadow", "swshadowq"):
        out.append('    pr("Misc", 1, "%s", r.%s());' % (n, n[0].upper() + n[1:]))
    out.append("  }")
    out.append("  return 0; }")
    return "\n".join(out)


def py_main(pkg, cases, grid, pydir):
    out = ["import sys", "sys.path.insert(0, %r)" % pydir, "import numpy as np", "import cfa",
           "def pr(r, g, n, f):",
           "    try:",
           "        v = f()",
           "    except Exception as e:",
           "        print(r, g, n, 'x', type(e).__name__); return",
           "    if isinstance(v, (complex, np.complexfloating)): print(r, g, n, 'c', '%.17g' % v.real, '%.17g' % v.imag)",
           "    elif isinstance(v, (float, np.floating)): print(r, g, n, 'f', '%.17g' % v)",
           "    else: print(r, g, n, 'i', int(v))"]
    for rn, fields, cfs in cases:
        for gi, vals in enumerate(grid[rn]):
            out.append("r = cfa.%s(%s)" % (rn, ", ".join("%s=%s" % (fn, py_literal(ft, v)) for (fn, ft), v in zip(fields, vals))))
            for n, e, meta in cfs:
                out.append("pr(%r, %d, %r, r.%s)" % (rn, gi, n, snake(n)))
    out.append("r = cfa.Misc(i=5, f=2.5, v=[10, 20, 30], w=[1, 2, 3], m={'k': 42}, s='abc', fa=np.arange(1, 7, dtype=np.int32).reshape(2, 3),"
               " nd=(np.arange(4, dtype=np.float32) + 0.5).reshape(2, 2), na=(np.arange(6, dtype=np.float64) * 1.5).reshape(2, 3),"
               " dy=np.zeros((2, 1, 2), dtype=np.int16), o=9, u=cfa.Int32OrString.String('zz'), n=cfa.Int32OrFloat32.Float32(1.5),"
               " inner=cfa.Inner(q=21, w=[0.5, 1.5], h=7.5))")
    pkgmisc = [d for d in pkg.defs if d.name == "Misc"][0]
    for n, e in pkgmisc.computed:
        out.append("pr('Misc', 0, %r, r.%s)" % (n, snake(n)))
    out.append("r.o = None; r.u = cfa.Int32OrString.Int32(4); r.n = None")
    for n in ("swo", "swu", "swn", "swtype", "swshadow", "swshadowq"):
        out.append("pr('Misc', 1, %r, r.%s)" % (n, snake(n)))
    return "\n".join(out)


def parse_out(text):
    out = {}
    for l in text.split("\n"):
        p = l.split()
        if len(p) < 4:
            continue
        key = (p[0], int(p[1]), p[2])
        if p[3] == "i":
            out[key] = ("i", int(p[4]))
        elif p[3] == "f":
            out[key] = ("f", float(p[4]))
        elif p[3] == "c":
            out[key] = ("c", complex(float(p[4]), float(p[5])))
        else:
            out[key] = ("x", " ".join(p[4:]))
    return out


def same(a, b):
    if a[0] == "x" or b[0] == "x":
        return a[0] == b[0]
    va, vb = a[1], b[1]
    if isinstance(va, complex) or isinstance(vb, complex):
        va, vb = complex(va), complex(vb)
        return va == vb or abs(va - vb) <= 1e-6 * max(abs(va), abs(vb), 1)
    if isinstance(va, float) and isinstance(vb, float) and math.isnan(va) and math.isnan(vb):
        return True
    return va == vb or (isinstance(va, float) or isinstance(vb, float)) and abs(va - vb) <= 1e-6 * max(abs(va), abs(vb), 1)


def int_div_explains(m, vals, cval, pval):
    """True when the C++ value is what truncating division gives and the Python value what flooring division gives."""
    def ev(op, a, b, mode):
        if op == "+":
            return a + b
        if op == "-":
            return a - b
        if op == "*":
            return a * b
        if op == "**":
            return a ** b
        if b == 0:
            raise ZeroDivisionError
        if isinstance(a, int) and isinstance(b, int):
            q = abs(a) // abs(b)
            tr = q if (a >= 0) == (b >= 0) else -q
            return tr if mode == "trunc" else a // b
        return a / b

    def tree(mode):
        if m[0] == "pair":
            return ev(m[3], vals[0], vals[1], mode)
        shape, o1, o2 = m[1], m[2], m[3]
        x, y, z = vals
        prec = {"+": 1, "-": 1, "*": 2, "/": 2, "**": 3}
        if shape == "N":
            shape = "R" if (prec[o2] > prec[o1] or (o1 == "**" and o2 == "**")) else "L"
        return ev(o2, ev(o1, x, y, mode), z, mode) if shape == "L" else ev(o1, x, ev(o2, y, z, mode), mode)
    try:
        return abs(tree("trunc") - cval) < 1e-9 and abs(tree("floor") - pval) < 1e-9
    except Exception:
        return False


MISC_EXPECT = {"acc": 5, "nested": 21, "nestedcf": 42, "nestedvec": 1.5, "vidx": 20, "widx": 3, "midx": 42, "fidx": 6, "fnamed": 4, "ndidx": 2.5, "nanamed": 1.5,
               "szv": 3, "szw": 3, "szm": 1, "szfa": 6, "szfazero": 2, "szfay": 3, "sznd": 4, "szndone": 2, "sznac": 3, "szdy": 4, "dcdy": 3, "dcfa": 2, "dify": 1,
               "dinac": 1, "convd": 5.0, "convi": 2, "convu": 5, "convsum": 7, "arith": 23, "cfofcf": 8, "swo": 10, "swu": 0, "swn": 1.5, "swtype": 2, "swshadow": 7.5 / 9, "swshadowq": 22}
MISC_EXPECT1 = {"swo": -1, "swu": 4, "swn": 0, "swtype": 1, "swshadow": 0.5, "swshadowq": 84}


def main(tier):
    quick = tier == "quick"
    chk = Check("C19", "exploration", tier,
                "all 169 ordered pairs of numeric primitives x {+ - * / **} (+ unary minus and literal operands per type), 7 operand-type "
                "mixes x 25 operator pairs x {(x.y).z, x.(y.z), unparenthesised}, and 39 access/function/conversion/switch fields; static "
                "types via the harness, values from generated C++ and Python on an operand grid (3x3 values per pair, 3 per tree); "
                "non-trivial = distinct (expression, operand values) evaluated in both languages")
    pkg, cases = build_package()
    root = os.path.join(build.scratch(), "c19")
    # yardl does not define every operand pair (e.g. int64 with uint8): drop the computed fields it rejects as
    # "operator not defined" (the docs promise no particular set), but require the rejection to be symmetric
    rejected = set()
    for attempt in range(4):
        build.write_tree(root, am.package_files(pkg, targets=()))
        rc, out, err = build.yardl(["validate"], cwd=os.path.join(root, "cfa"))
        if rc == 0:
            break
        lines = open(os.path.join(root, "cfa", "model.yml")).read().split("\n")
        bad = set()
        for m in re.finditer(r"model\.yml:(\d+):\d+: (.*)", err):
            ln, msg = int(m.group(1)) - 1, m.group(2)
            if "operator not defined between operands" not in msg and "no best type was found for the switch" not in msg:
                raise build.HarnessError("yardl rejected the C19 package: " + msg[:300])
            cf = lines[ln].strip().split(":")[0]
            kk = ln
            while lines[kk].startswith("      ") or not lines[kk].strip():
                kk -= 1                 # multi-line (!switch) computed field: go up to its name
            cf = lines[kk].strip().split(":")[0]
            k = ln
            while not re.match(r"^\w", lines[k]):
                k -= 1
            bad.add((lines[k].split(":")[0], cf))
        rejected |= bad
        for d in pkg.defs:
            if d.kind == "record":
                d.computed = [(n, e) for n, e in d.computed if (d.name, n) not in bad]
        cases = [(rn, fields, [c for c in cfs if (rn, c[0]) not in bad]) for rn, fields, cfs in cases]
    else:
        raise build.HarnessError("C19 package still rejected after dropping undefined operand pairs")
    rej_pairs = {}
    for rn, cf in rejected:
        if rn.startswith("B"):
            rej_pairs.setdefault(rn, set()).add(cf)
    for t1 in NUM:
        for t2 in NUM:
            a = rej_pairs.get("B%s%s" % (t1.capitalize(), t2.capitalize()), set()) & {"add", "sub", "mul", "div", "pow"}
            b = rej_pairs.get("B%s%s" % (t2.capitalize(), t1.capitalize()), set()) & {"add", "sub", "mul", "div", "pow"}
            if a != b:
                chk.fail("static-type/asymmetric-acceptance", "%s op %s is %s but %s op %s is %s" % (t1, t2, "rejected for %s" % sorted(a) if a else "accepted", t2, t1,
                                                                                              "rejected for %s" % sorted(b) if b else "accepted"), {"left": t1, "right": t2})
    chk.extra["operand_pairs_not_defined_by_yardl"] = sorted(k[1:] for k in rej_pairs)
    # all back ends in one run, as a user would have them: they work on one shared model, one after the other
    rc, err, outdir = cppdrv.generate(pkg, root, targets=("cpp", "python", "matlab"), cpp_opts={"generateNDJson": "false"})
    if rc != 0:
        raise build.HarnessError("yardl rejected the C19 package: " + err[-800:])
    h = build.HarnessProc("cftypes")
    tr = h.call({"dir": os.path.join(root, "cfa")})
    h.close()
    if tr.get("err"):
        raise build.HarnessError("cftypes: " + tr["err"][:400])
    types = tr["types"]
    canon = lambda s: am.PRIM_ALIASES.get(s, s)
    # ---- static types
    for t1 in NUM:
        for t2 in NUM:
            r12, r21 = types["B%s%s" % (t1.capitalize(), t2.capitalize())], types["B%s%s" % (t2.capitalize(), t1.capitalize())]
            for n, op in OPS:
                if n not in r12 or n not in r21:
                    continue
                chk.count()
                a, b = canon(r12[n]), canon(r21[n])
                where = {"expression": "a %s b" % op, "left": t1, "right": t2, "type": a, "swapped_type": b}
                if a != b:
                    chk.fail("static-type/asymmetric/%s" % n, "%s %s %s has type %s but %s %s %s has type %s" % (t1, op, t2, a, t2, op, t1, b), where)
                if op == "**":
                    # documented: "2 ** 3 ... yields a float64"; for floating operands the docs are silent: any floating type is accepted
                    if is_complex(t1) or is_complex(t2):
                        okp = is_complex(a)
                    elif is_int(t1) and is_int(t2):
                        okp = a == "float64"
                    else:
                        okp = a in ("float32", "float64")
                    if not okp:
                        chk.fail("static-type/pow", "%s ** %s has type %s, documented: ** on integers yields float64" % (t1, t2, a), where)
                elif not (can_hold(a, t1) and can_hold(a, t2)) and not (is_int(t1) and is_int(t2) and a in ("int64", "uint64", "size", "float64")):
                    chk.fail("static-type/cannot-hold-operands/%s" % n, "%s %s %s has type %s, which cannot represent every %s" % (t1, op, t2, a, t1 if not can_hold(a, t1) else t2), where)
    for t1 in NUM:
        rt = types.get("V%s" % t1.capitalize(), {})
        for t in NUM:
            n = "to%s" % t.capitalize()
            if n not in rt:
                continue
            chk.count()
            if canon(rt[n]) != t:
                chk.fail("static-type/conversion", "`a as %s` with a: %s has static type %s" % (t, t1, canon(rt[n])), {"expression": "a as %s" % t, "operand": t1, "type": canon(rt[n])})
            for n2, e2 in (("cm%s" % t.capitalize(), "(a as %s) * b" % t), ("cs%s" % t.capitalize(), "b - (a as %s)" % t)):
                if n2 in rt and not (can_hold(canon(rt[n2]), t) and can_hold(canon(rt[n2]), t1)) and not (is_int(t1) and is_int(t) and canon(rt[n2]) in ("int64", "uint64", "size", "float64")):
                    chk.fail("static-type/conversion-operand", "`%s` with a, b: %s has static type %s, which cannot represent every %s" % (e2, t1, canon(rt[n2]), t),
                             {"expression": e2, "operand": t1, "type": canon(rt[n2])})
    swc = getattr(build_package, "swcases", [])
    for rn, t1, t2 in swc:
        ra = types.get(rn, {})
        rb = types.get("S%s%s" % (t2.capitalize(), t1.capitalize()), {})
        if "swa" not in ra or "swb" not in ra:
            continue
        chk.count()
        a, b = canon(ra["swa"]), canon(ra["swb"])
        where = {"record": rn, "case_types": [t1, t2], "type_first_order": a, "type_second_order": b}
        if a != b:
            chk.fail("static-type/switch-depends-on-case-order", "switch over %s? with cases (%s, null: %s) has type %s, with the cases swapped %s" % (t1, t1, t2, a, b), where)
        for t in (t1, t2):
            if not can_hold(a, t) and not (is_int(t1) and is_int(t2) and a in ("int64", "uint64", "size", "float64")):
                chk.fail("static-type/switch-cannot-hold-case", "switch with case types %s and %s has type %s, which cannot represent every %s" % (t1, t2, a, t), where)
        if "swa" in rb and canon(rb["swa"]) != a:
            chk.fail("static-type/switch-asymmetric", "switch over (%s, %s) has type %s but over (%s, %s) has type %s" % (t1, t2, a, t2, t1, canon(rb["swa"])), where)
    # ---- values
    grid = {}
    for rn, fields, cfs in cases:
        if rn.startswith("S"):
            (_, t1), (_, t2) = fields
            grid[rn] = [(domain(t1, "a")[0], domain(t2, "b")[0]), (None, domain(t2, "b")[1]), (domain(t1, "a")[1], domain(t2, "b")[0]), (None, domain(t2, "a")[1])]
        elif rn.startswith("E"):
            (_, t1), (_, t2) = fields
            (lo1, hi1), (lo2, hi2) = INT_RANGE[t1], INT_RANGE[t2]
            grid[rn] = [(hi1, hi2), (lo1, hi2), (hi1, lo2), (lo1, lo2), (hi1, 1), (1, hi2)]
        elif rn.startswith("V"):
            (_, t1), _ = fields
            if is_int(t1):
                lo, hi = INT_RANGE[t1]
                grid[rn] = [(hi, hi), (lo, 3), (7, 3), (100, 101)]
            else:
                grid[rn] = list(zip(domain(t1, "a"), domain(t1, "b")))
        elif rn.startswith("B"):
            (_, t1), (_, t2) = fields
            grid[rn] = list(itertools.product(domain(t1, "a"), domain(t2, "b")))
            if quick:
                grid[rn] = grid[rn][::2]
        else:
            ta, tb, tc = [ft for _, ft in fields]
            grid[rn] = [(domain(ta, "a")[0], domain(tb, "b")[0], domain(tc, "b")[1]), (domain(ta, "a")[1], domain(tb, "b")[2], domain(tc, "b")[0]),
                        (domain(ta, "a")[2], domain(tb, "a")[0], domain(tc, "b")[0])]
    cppdir = os.path.join(outdir, "cpp")
    ns = cppdrv.cpp_namespace(cppdir)
    mainp = os.path.join(cppdir, "cf_main.cc")
    open(mainp, "w").write(cpp_main(pkg, cases, ns, grid))
    ok, objs, errors = cppdrv.compile_objects(cppdir, ["types.cc", mainp], ["-O0"])
    if not ok:
        chk.fail("cpp-does-not-compile", "generated computed fields do not compile: %s" % list(errors.values())[0][:800], {"errors": {k: v[:3000] for k, v in errors.items()}})
        return chk.finish()
    exe = os.path.join(cppdir, "cfdrv")
    build.run(["g++"] + objs + ["-o", exe], cwd=cppdir, check=True)
    cpp = parse_out(build.run([exe], check=True, timeout=600).stdout.decode())
    pys = os.path.join(root, "cf_main.py")
    open(pys, "w").write(py_main(pkg, cases, grid, os.path.join(outdir, "py")))
    pp = build.run([build.PY, pys], timeout=900)
    if pp.returncode != 0:
        chk.fail("python-driver-failed", "generated Python computed fields cannot be evaluated: %s" % pp.stderr.decode()[-600:], {"stderr": pp.stderr.decode()[-3000:]})
        return chk.finish()
    py = parse_out(pp.stdout.decode())
    meta = {(rn, n): (e, m, fields) for rn, fields, cfs in cases for n, e, m in cfs}
    for key in sorted(set(cpp) | set(py)):
        rn, gi, n = key
        chk.count()
        c, p = cpp.get(key), py.get(key)
        if rn == "Misc":
            exp = (MISC_EXPECT if gi == 0 else MISC_EXPECT1).get(n)
            chk.nontriv(key)
            for lang, got in (("cpp", c), ("py", p)):
                if got is None or got[0] == "x" or not same(("f", float(exp)), ("f", float(got[1]) if not isinstance(got[1], complex) else got[1])):
                    chk.fail("value/%s/misc/%s" % (lang, n), "Misc.%s (%s) = %s in %s, expected %s" % (n, dict([d for d in pkg.defs if d.name == "Misc"][0].computed)[n], got, lang, exp),
                             {"field": n, "lang": lang, "got": repr(got), "expected": exp})
            continue
        e, m, fields = meta[(rn, n)]
        vals = grid[rn][gi]
        if m[0] in ("conv", "cpair", "cpairr"):
            # a conversion of a value the target type cannot represent is not an in-range operand
            src = vals[0]
            if isinstance(src, complex):
                okc = is_complex(m[2])
            else:
                okc = representable(Fraction(src), m[2])
            if not okc:
                continue
            if m[0] == "cpair":
                m = ("pair", m[2], m[1], m[3])
            elif m[0] == "cpairr":
                m = ("pair", m[1], m[2], m[3])
                vals = (vals[1], vals[0])
        chk.nontriv((e, rn, vals))
        where = {"record": rn, "expression": e, "operand_types": [ft for _, ft in fields], "operands": [repr(v) for v in vals], "cpp": repr(c), "python": repr(p),
                 "static_type": types.get(rn, {}).get(n)}
        if c is None or p is None:
            chk.fail("value/missing", "no value for %s.%s" % (rn, n), where)
            continue
        cls = m[0] + "/" + (m[3] if m[0] == "pair" else (m[1] + m[2] + m[3]) if m[0] == "tree" else m[0])
        if not same(c, p):
            # fixed-width C++ arithmetic vs Python's unbounded integers: when the mathematical value does not fit the static
            # type the two languages necessarily part (C++ wraps / narrows, Python keeps the exact value)
            try:
                ref0 = exact(m[3], vals[0], vals[1]) if m[0] == "pair" else None
            except Exception:  # noqa
                ref0 = None
            rt0 = canon(types[rn][n])
            if ref0 is not None and not isinstance(ref0, complex) and is_int(rt0) and Fraction(ref0).denominator == 1 and not representable(Fraction(ref0), rt0):
                chk.fail("value/cpp-vs-python/result-outside-static-type/%s" % rt0, "%s with %s = %s (static type %s): the exact value %s does not fit; C++ gives %s, Python gives %s" % (
                    e, [fn for fn, _ in fields], [repr(v) for v in vals], rt0, ref0, c[1], p[1]), where)
                continue
            rt0 = canon(types[rn][n])
            if m[0] == "neg" and is_int(m[1]) and INT_RANGE[m[1]][0] == 0:
                continue    # -a on an unsigned operand: the mathematical value is not representable in the static type
            if "**" in e and not is_complex(rt0) and ((c[0] == "f" and math.isnan(c[1])) or p[0] == "c" or p[0] == "x"):
                continue    # negative base with a non-integer exponent / zero to a negative power: outside the real domain
            if "/" in e and (p[0] == "x" and "ZeroDivision" in str(p[1]) or c[0] == "x" or (c[0] == "f" and math.isinf(c[1]))):
                continue    # division by zero: not an in-range operand
            if "/" in e and c[0] in "if" and p[0] in "if" and int_div_explains(m, vals, c[1], p[1]):
                chk.fail("value/cpp-vs-python/integer-division-of-negative-operands",
                         "%s with %s = %s: C++ truncates toward zero (%s), Python floors (%s)" % (e, [fn for fn, _ in fields], [repr(v) for v in vals], c[1], p[1]), where)
                continue
            chk.fail("value/cpp-vs-python/%s" % cls, "%s with %s = %s: C++ gives %s, Python gives %s" % (e, [fn for fn, _ in fields], [repr(v) for v in vals], c[1], p[1]), where)
            continue
        # exact reference for single-operator pairs and trees
        ref = None
        if m[0] == "sw":
            ref = vals[0] if vals[0] is not None else vals[1]
            ref = ref if isinstance(ref, complex) else Fraction(ref)
        elif m[0] == "pair":
            ref = exact(m[3], vals[0], vals[1])
        elif m[0] == "conv":
            ref = vals[0] if isinstance(vals[0], complex) else Fraction(vals[0])
        elif m[0] == "tree":
            shape, o1, o2 = m[1], m[2], m[3]
            x, y, z = vals
            if shape == "L":
                inner = exact(o1, x, y)
                ref = exact(o2, inner, z) if inner is not None and not isinstance(inner, complex) or isinstance(inner, complex) and inner is not None else None
            elif shape == "R":
                inner = exact(o2, y, z)
                ref = exact(o1, x, inner) if inner is not None else None
        rt = canon(types[rn][n])
        if ref is not None and representable(ref if isinstance(ref, complex) else Fraction(ref), rt) and c[0] != "x":
            # integer division and intermediate integer results are only required to agree across languages
            if ("/" in e) and is_int(rt):
                continue
            refv = ref if isinstance(ref, complex) else float(ref)
            if not same(("f", refv), c):
                chk.fail("value/differs-from-mathematical-value/%s" % cls, "%s with %s: both languages give %s, the mathematical value is %s" % (e, [repr(v) for v in vals], c[1], refv), where)
    chk.sample({"records": len(cases) + 1, "computed_fields": sum(len(c[2]) for c in cases) + len(MISC_EXPECT), "evaluations_cpp": len(cpp), "evaluations_python": len(py)})
    chk.assumptions += ["MATLAB computed fields are not evaluated (no MATLAB/Octave)", "inexact integer quotients: only cross-language agreement is required",
                        "expressions whose exact value is not representable in the static type (e.g. unsigned difference below zero) are only compared across languages",
                        "the documented promotion rule is only 'a common type'; the static oracle checks symmetry, ** -> float64 and that the type can hold both operands"]
    return chk.finish()

"""C10 The front end is total: any input gives success or located diagnostics.

Bounded exhaustive enumeration of inputs (YAML node trees, type-expression token strings, computed-field expression token
strings, short byte strings, single-byte mutations of valid files, manifest node trees), each run through the real
LoadPackage + validatePackage in-process (panic capture, memory limit, hang classifier); every misbehaving class is
re-run through the real CLI before it is believed."""
import itertools, json, os, re, shutil, time
from build import Pool

import build
from evidence import Check

SCALARS = ["", "int", "X", "x", "1", "-1", "null", "true", "1.5", "99999999999999999999", "int*", "int[", "a->b", "X<int>",
           "08", "0x", "~", "int?*3[]", "string->int?", "Y", "300000000"]
TAGS = ["", "!record", "!enum", "!flags", "!protocol", "!vector", "!array", "!map", "!union", "!stream", "!generic", "!switch", "!bogus"]
KEYS = ["fields", "values", "base", "items", "length", "dimensions", "keys", "sequence", "computedFields", "name", "args", "x", "X", "null", "1"]

HOST = """Y: !record
  fields:
    x: int
    v: int*
    m: string->int
    a: int[2,3]
    n: int[,]
    d: int[]
    o: int?
    u: [int, string]
    s: string
    f: float
    e: E
    r: Z
    nd: int[x, y]
    mx: !array {items: int, dimensions: [x, ~, y]}
E: !enum
  values: [a, b]
Z: !record
  fields:
    q: int
"""


def q(s):
    return json.dumps(s)


def leaf_nodes():
    return [q(s) if s not in ("null", "true", "1", "-1", "1.5", "~", "", "300000000") else s for s in SCALARS]


def level1(full):
    """Flow-style YAML node texts with one level of structure below an optional tag."""
    L = leaf_nodes()
    few = L[:4] + [L[6]]
    out = []
    for tag in TAGS:
        t = tag + " " if tag else ""
        for l in L:
            out.append(t + l)
        for l in L:
            out.append("%s[%s]" % (t, l))
        for a, b in itertools.product(few, few):
            out.append("%s[%s, %s]" % (t, a, b))
        for k in KEYS:
            for l in L:
                out.append("%s{%s: %s}" % (t, k, l))
        if full or tag in ("", "!record", "!array", "!enum", "!vector", "!map", "!protocol"):
            for k1, k2 in itertools.combinations(KEYS[:11], 2):
                for a, b in itertools.product(few[:3], few[:3]):
                    out.append("%s{%s: %s, %s: %s}" % (t, k1, a, k2, b))
    return out


def level2(l1, quick):
    """tag + {key: level-1 node}"""
    out = []
    inner = [n for n in l1 if not n.startswith("!")]
    if quick:
        inner = inner[::9]
    tags = ["!record", "!enum", "!flags", "!protocol", "!array", "!vector", "!map", "!union", ""] if quick else TAGS
    for tag in tags:
        t = tag + " " if tag else ""
        for k in KEYS[:11]:
            for n in inner:
                out.append("%s{%s: %s}" % (t, k, n))
    return out


def contexts(node):
    """Model texts placing a node in each syntactic position."""
    return {
        "top": "X: %s\n" % node,
        "field": "R: !record\n  fields:\n    f: %s\n" % node,
        "step": "P: !protocol\n  sequence:\n    s: %s\n" % node,
        "dimensions": "A: !array\n  items: int\n  dimensions: %s\n" % node,
        "length": "V: !vector\n  items: int\n  length: %s\n" % node,
        "values": "E: !enum\n  values: %s\n" % node,
        "base": "E: !enum\n  base: %s\n  values: [a]\n" % node,
        "computed": "R: !record\n  fields:\n    x: int\n  computedFields:\n    c: %s\n" % node,
        "typeargs": "G<T>: T*\nX: !generic\n  name: G\n  args: %s\n" % node,
        "mapkeys": "M: !map\n  keys: %s\n  values: int\n" % node,
    }


TYPE_TOKENS = ["int", "Y", "?", "*", "3", "[", "]", ",", "->", "<", ">", "(", ")", ":", "x", "0", "-1", "E", "G"]
EXPR_TOKENS = ["x", "v", "m", "a", "n", "d", "o", "u", "s", "f", "r", "1", "0", "-1", "1.5", "'k'", "+", "-", "*", "/", "**", "(", ")", "[", "]", ".", ",",
               "as", "int", "size", "dimensionIndex", "dimensionCount", ":", "q", "08", "0x1F", "e", "99999999999999999999"]

BYTES = [b"a", b"X", b":", b" ", b"\n", b"-", b"!", b"[", b"]", b"{", b"}", b",", b"#", b"&", b"*", b"?", b"|", b">", b"'", b'"', b"%", b"@", b"\t", b"\x00",
         b"\xff", b"\xc3", b"1", b"~", b"<"]

VALID_FILES = [HOST,
               "P: !protocol\n  sequence:\n    a: int\n    b: !stream\n      items: Y\n" + HOST,
               "U: !union\n  i: int\n  f: float\nG<T>: !record\n  fields:\n    t: T\n  computedFields:\n    c: t\nA: G<int>\n",
               "F: !flags\n  base: uint8\n  values:\n    a: 1\n    b: 2\nM: !map\n  keys: string\n  values: !vector\n    items: F\n    length: 2\n",
               "R: !record\n  fields:\n    a: !array\n      items: float\n      dimensions:\n        x: 2\n        y:\n    o: [null, int, float]\n  computedFields:\n    c:\n      !switch o:\n        int i: i\n        float: 0\n        _: 1\n"]

PKG = "namespace: T\n"


def gen_inputs(tier):
    quick = tier == "quick"
    l1 = level1(not quick)
    # (1) node trees in every context
    for node in l1:
        for ctx, text in contexts(node).items():
            yield ("tree1/" + ctx, {"model.yml": text}, PKG)
    for node in level2(l1, quick):
        for ctx in (("top", "field", "step") if quick else ("top", "field", "step", "values", "dimensions", "computed")):
            yield ("tree2/" + ctx, {"model.yml": contexts(node)[ctx]}, PKG)
    # (2) type-expression and computed-field expression token strings in a well-typed host
    nt = 3 if quick else 4
    for n in range(1, nt + 1):
        for toks in itertools.product(TYPE_TOKENS, repeat=n):
            s = "".join(toks)
            yield ("typeexpr/%d" % n, {"model.yml": HOST + "G<T>: T*\nW: !record\n  fields:\n    w: %s\n" % q(s)}, PKG)
    ne = 3 if quick else 4
    for n in range(1, ne + 1):
        toks_all = EXPR_TOKENS if n <= 3 else EXPR_TOKENS[:24]
        for toks in itertools.product(toks_all, repeat=n):
            s = " ".join(toks)
            yield ("expr/%d" % n, {"model.yml": HOST.replace("E: !enum", "  computedFields:\n    c: %s\nE: !enum" % q(s), 1)}, PKG)
    # (2b) structured type expressions: base x <=2 tails (optional, vector, array with every dimension spec <=3 dims, map)
    #      in every host position (field, union member, vector items, map value, generic argument, alias)
    dimitems = ["", "3", "x", "x:3", "0", "y"]
    specs = [""]
    for n in range(1, 4):
        for c in itertools.product(dimitems, repeat=n):
            specs.append(",".join(c))
    tails1 = ["?", "*", "*3", "*0", "->int", "->Y"] + ["[%s]" % sp for sp in specs]
    simple_tails = ["?", "*", "*3", "->int", "[]", "[,]", "[2,3]", "[x,y]", "[x:2,y:3]", "[x:2,y]", "[2,]", "[x:2,3]"]
    bases = ["int", "Y"] if quick else ["int", "Y", "Q", "G<int>", "G<Q>"]
    hosts = {
        "field": "W: !record\n  fields:\n    w: %s\n",
        "union": "W: !record\n  fields:\n    w: [int, %s]\n",
        "union3": "W: !record\n  fields:\n    w: [null, %s, string]\n",
        "items": "W: !vector\n  items: %s\n",
        "mapval": "W: !map\n  keys: string\n  values: %s\n",
        "garg": "W: !generic\n  name: G\n  args: [%s]\n",
        "step": "PP: !protocol\n  sequence:\n    a: !stream\n      items: %s\n",
    }
    if quick:
        hosts = {k: hosts[k] for k in ("field", "union", "items", "step")}
    for base in bases:
        exprs = [base + t for t in tails1]
        for t1 in simple_tails:
            for t2 in (tails1 if not quick else tails1[::5]):
                exprs.append(base + t1 + t2)
        for e in exprs:
            for hn, h in hosts.items():
                yield ("typestruct/" + hn, {"model.yml": HOST + "G<T>: T*\n" + h % q(e)}, PKG)
    # (2d) postfix chains in computed fields: atom x optional unary minus x every sequence of <= 2 (quick) / 3 postfix operators
    #      (conversion, member access, subscripts, calls) - the operators whose precedence interacts in the expression parser
    atoms = ["x", "v", "m", "r", "a", "1", "nd", "mx"]
    posts = [" as int", " as long", " as Y", ".x", ".f", "[0]", "[]", "[0, 1]", "['k']", "()", "(0)", "[x: 0]", "[x: 0, y: 1]", "[q: 0, 1]",
             "[y: 0, x: 1]", "[y: 0, x: 1, x: 2]", "[x: 0, 1, y: 2]"]
    for atom in atoms:
        for pre in ("", "-"):
            for n in range(1, (2 if quick else 3) + 1):
                for chain in itertools.product(posts, repeat=n):
                    e = pre + atom + "".join(chain)
                    yield ("postfix/%d" % n, {"model.yml": HOST.replace("E: !enum", "  computedFields:\n    c: %s\nE: !enum" % q(e), 1)}, PKG)
    # (2d') integer literals at the edges of 32 / 63 / 64 bits wherever an index or a dimension number is expected
    lits = ["0", "1", "2", "3", "-1", "2147483647", "2147483648", "4294967296", "9223372036854775807", "9223372036854775808", "18446744073709551615",
            "18446744073709551616", "-9223372036854775808", "-9223372036854775809", "0x8000000000000000", "1e3", "1.0"]
    forms = ["size(a, %s)", "size(n, %s)", "size(nd, %s)", "size(d, %s)", "size(v, %s)", "a[%s, 0]", "a[0, %s]", "n[%s, 0]", "d[%s]", "v[%s]", "nd[x: %s, y: 0]", "m[%s]",
             "dimensionIndex(nd, %s)", "x + %s", "%s", "x as int + %s", "v[%s] + a[%s, %s]"]
    for f in forms:
        for l in lits:
            e = f.replace("%s", l)
            yield ("literal-edges", {"model.yml": HOST.replace("E: !enum", "  computedFields:\n    c: %s\nE: !enum" % q(e), 1)}, PKG)
    # (2e) reference cycles reached from every host position, incl. the base type of an enum / flags
    cyc = "CA: CB\nCB: CA\nRC: !record\n  fields:\n    r: RC\nCG<T>: CG<T>\n"
    chosts = dict(hosts)
    chosts["enumbase"] = "W: !enum\n  base: %s\n  values: [a]\n"
    chosts["flagsbase"] = "W: !flags\n  base: %s\n  values: [a]\n"
    chosts["alias"] = "W: %s\n"
    chosts["computed-as"] = "W: !record\n  fields:\n    w: int\n  computedFields:\n    c: w as %s\n"
    for base in ("CA", "CB", "RC", "CG<int>"):
        for t in [""] + simple_tails:
            for hn, h in chosts.items():
                yield ("cycle/" + hn, {"model.yml": HOST + "G<T>: T*\n" + cyc + h % q(base + t)}, PKG)
    # (2e') the same cycles living in an imported package (and in the import of an import) while the root package is clean, and
    #       the other way round; every later pass runs over all namespaces, whichever one reported the cycle
    for base in ("CA", "RC", "CG<int>"):
        for t in ("", "->int", "*", "?"):
            for hn in ("alias", "items", "enumbase", "field"):
                use = chosts[hn] % q(base + t)
                clean = "Okay: int\n"
                for layout in ("import", "import-of-import", "root-and-clean-import"):
                    if layout == "import":
                        fs = {"p0/model.yml": clean, "p1/_package.yml": "namespace: Imp\n", "p1/model.yml": "G<T>: T*\n" + cyc + use}
                        man = "namespace: T\nimports:\n  - ../p1\n"
                    elif layout == "import-of-import":
                        fs = {"p0/model.yml": clean, "p1/_package.yml": "namespace: Imp\nimports:\n  - ../p2\n", "p1/model.yml": clean,
                              "p2/_package.yml": "namespace: Imp2\n", "p2/model.yml": "G<T>: T*\n" + cyc + use}
                        man = "namespace: T\nimports:\n  - ../p1\n"
                    else:
                        fs = {"p0/model.yml": "G<T>: T*\n" + cyc + use, "p1/_package.yml": "namespace: Imp\n", "p1/model.yml": clean}
                        man = "namespace: T\nimports:\n  - ../p1\n"
                    yield ("importgraph-cycle/" + layout + "/" + hn, fs, man)
    # (2j) enum / flags values at the edges of 64 bits followed by a value that yardl has to choose itself
    edge_vals = ["0", "1", "-1", "0x7fffffffffffffff", "0x8000000000000000", "0xffffffffffffffff", "-0x8000000000000000", "0x10000000000000000",
                 "9223372036854775808", "18446744073709551615", "18446744073709551616", "-9223372036854775809"]
    for kind in ("!enum", "!flags"):
        for bt in (None, "uint64", "int64", "uint8", "int8", "size"):
            for ev in edge_vals:
                for body in ("  values:\n    first: %s\n    next:\n" % ev, "  values:\n    first: %s\n    next:\n    third:\n" % ev,
                             "  values:\n    zero: 0\n    first: %s\n    next:\n" % ev):
                    yield ("enum-edges/" + kind[1:], {"model.yml": HOST + "W: %s\n%s%s" % (kind, ("  base: %s\n" % bt) if bt else "", body)}, PKG)
    # (2f) YAML anchors and aliases in every position of a small model (keys, type expressions, dimension maps, values)
    for dims in ("[&n ~, *n]", "[&n 2, *n]", "{x: &n ~, y: *n}", "[*n]", "&d [2, 3]", "[&n x, *n]"):
        yield ("anchors", {"model.yml": HOST + "W: !record\n  fields:\n    a: !array\n      items: int\n      dimensions: %s\n" % dims}, PKG)
    anchor_vals = ["", "int", "~", "[int, string]", "!vector {items: int}", "{x: 2}"]
    for av in anchor_vals:
        for where in ("X: &a %s\nY: *a\n", "X: &a %s\n*a : int\n", "W: !record\n  fields:\n    f: &a %s\n    g: *a\n", "W: !record\n  fields:\n    f: &a %s\n*a : int\n",
                      "W: !array\n  items: int\n  dimensions: {x: &a %s, y: *a}\n", "W: !array\n  items: int\n  dimensions: {x: &a %s, y: }\n*a : int\n",
                      "W: !enum\n  values: {p: &a %s, q: *a}\n", "W: !union\n  p: &a %s\n  q: *a\n", "W: &a !vector\n  items: %s\nV: *a\n",
                      "PP: !protocol\n  sequence:\n    s: &a %s\n    t: *a\n"):
            yield ("anchors", {"model.yml": HOST + where % av}, PKG)
    for self_ref in ("X: &a [int, *a]\n", "W: !record\n  fields:\n    f: &t !vector {items: *t}\n", "X: &a {k: *a}\n", "&k X: int\n*k : int\n"):
        yield ("anchors", {"model.yml": HOST + self_ref}, PKG)
    # (2g) computed field reference cycles through every kind of sub-expression (plain, call argument, subscript, switch case with
    #      and without a declared variable, conversion)
    edges = ["%s", "%s + 1", "size(v) + %s", "v[%s]", "%s as long", "-%s", "(%s)"]
    sw = ["\n      !switch u:\n        int i: %s\n        string t: 0", "\n      !switch u:\n        int: %s\n        _: 0", "\n      !switch o:\n        int k: k + %s\n        _: 0"]
    for e1 in edges + sw:
        for e2 in edges + sw:
            body = "    ca: %s\n    cb: %s\n" % (e1 % "cb", e2 % "ca")
            yield ("computed-cycle", {"model.yml": HOST.replace("E: !enum", "  computedFields:\n" + body + "E: !enum", 1)}, PKG)
        body = "    ca: %s\n" % (e1 % "ca")
        yield ("computed-cycle", {"model.yml": HOST.replace("E: !enum", "  computedFields:\n" + body + "E: !enum", 1)}, PKG)
    # (2h) two instances of a generic record whose computed field is an expression of every kind, compared by the front end
    #      (union cases, explicit tags, a previous version): the structural equality of definitions has to cover every node kind
    kinds = ["x", "1", "1.5", "'s'", "-x", "x + 1", "x * 1.5", "x as T", "x as long", "size(v)", "v[0]", "m['k']", "r.q", "t", "(x)", "x ** 2",
             "\n      !switch o:\n        int i: i\n        _: 0", "\n      !switch u:\n        int: 1\n        string z: size(z)"]
    uses = ["U: [GR<int>, GR<int>]\n", "U: [GR<int>, GR<float>]\n", "U: !union {a: GR<int>, b: GR<int>}\n", "U: !union {a: GR<int>, b: GR<long>}\n",
            "U: !record\n  fields:\n    a: GR<int>\n    b: GR<int>\n    c: [null, GR<int>, GR<string>]\n", "U: !map {keys: string, values: [GR<int>, GR<int>]}\n",
            "U: GR<GR<int>>\nV: [U, GR<GR<int>>]\n"]
    for kd in kinds:
        gr = ("GR<T>: !record\n  fields:\n    x: int\n    t: T\n    v: int*\n    m: string->int\n    r: Z\n    o: int?\n    u: [int, string]\n"
              "  computedFields:\n    c: %s\n" % kd)
        for us in uses:
            yield ("expr-equal", {"model.yml": HOST + gr + us}, PKG)
    # (2i) deep nesting of every constructor that nests: the cost per level must stay far below a doubling of a doubling
    #      (hang classifier only)
    for depth in ((8, 16, 40) if quick else (8, 12, 16, 24, 40, 64)):
        nests = {"generic": "G<" * depth + "int" + ">" * depth, "generic-record": "Gr<" * depth + "int" + ">" * depth,
                 "generic-record-union": "Gr<" * depth + "[int, string]" + ">" * depth, "generic-unknown-record": "Gr<" * depth + "Missing" + ">" * depth, "generic-unknown": "G<" * depth + "Missing" + ">" * depth,
                 "vector": "int" + "*" * depth, "optional-vector": "int" + "?*" * (depth // 2), "map": "string->" * depth + "int",
                 "array": "int" + "[]" * depth, "generic-pair": "G2<" * depth + "int" + ", int>" * depth}
        for nm, t in nests.items():
            yield ("nesting/%s/%d" % (nm, depth), {"model.yml": HOST + "G<T>: T*\nGr<T>: !record\n  fields:\n    v: T\nG2<A, B>: !record\n  fields:\n    a: A\n    b: B\nW: !record\n  fields:\n    w: %s\n" % q(t)}, PKG)
        yield ("nesting/parentheses/%d" % depth, {"model.yml": HOST.replace("E: !enum", "  computedFields:\n    c: %s\nE: !enum" % q("(" * depth + "x" + ")" * depth), 1)}, PKG)
        yield ("nesting/unary/%d" % depth, {"model.yml": HOST.replace("E: !enum", "  computedFields:\n    c: %s\nE: !enum" % q("-" * depth + "x"), 1)}, PKG)
        yield ("nesting/yaml-flow/%d" % depth, {"model.yml": HOST + "W: " + "[" * depth + "int" + "]" * depth + "\n"}, PKG)
    # (2c) every import graph on <= 3 packages (termination and located errors of the loader; verdicts are C18's business)
    import c18
    for n in range(1, 4):
        for adj in c18.graphs(n):
            for o in c18.orders(adj, True):
                fs = c18.files_for(n, o, tuple(range(n)))
                yield ("importgraph/%d" % n, {k: v for k, v in fs.items() if k != "p0/_package.yml"}, fs["p0/_package.yml"])
    # (3) byte strings and single-byte mutations of valid files
    nb = 2 if quick else 3
    for n in range(0, nb + 1):
        for bs in itertools.product(BYTES, repeat=n):
            yield ("bytes/%d" % n, {"model.yml": b"".join(bs)}, PKG)
    for fi, text in enumerate(VALID_FILES[:(3 if quick else 5)]):
        b = text.encode()
        step = 3 if quick else 1
        for pos in range(0, len(b), step):
            yield ("mut/delete", {"model.yml": b[:pos] + b[pos + 1:]}, PKG)
            yield ("mut/truncate", {"model.yml": b[:pos]}, PKG)
            for sub in ([b":", b" ", b"\n", b"-", b"!", b"[", b"0"] if quick else BYTES):
                yield ("mut/subst", {"model.yml": b[:pos] + sub + b[pos + 1:]}, PKG)
    # (4) manifest node trees
    for node in l1[::(7 if quick else 1)]:
        for key in ("namespace", "imports", "versions", "cpp", "python", "json", "matlab", "bogus"):
            yield ("manifest/" + key, {"model.yml": "X: int\n"}, "namespace: T\n%s: %s\n" % (key, node) if key != "namespace" else "namespace: %s\n" % node)
    # (4a) two or three things wrong with one manifest at once (none of them has a line number), also in an imported package's
    #      and in a previous version's manifest
    wrongs = ["namespace: bad_ns\n", "python:\n  outputDir: \"\"\n", "cpp: {}\n", "json: {}\n", "matlab:\n  outputDir:\n", "versions:\n  1bad: .\n", "versions:\n  bad-label: ../nosuch\n",
              "imports:\n  - ../nosuch\n", "imports: [\"\", \"\"]\n"]
    for r in (2, 3):
        for combo in itertools.combinations(wrongs, r):
            if sum(1 for w in combo if w.startswith("versions")) > 1 or sum(1 for w in combo if w.startswith("imports")) > 1:
                continue
            body = "".join(combo)
            man = body if "namespace" in body else "namespace: T\n" + body
            yield ("manifest/several-errors", {"model.yml": "X: int\n"}, man)
            if r == 2:
                yield ("manifest/several-errors-imported", {"model.yml": "X: int\n", "imp/_package.yml": man.replace("namespace: T", "namespace: Imp"), "imp/model.yml": "Z: int\n"}, "namespace: T\nimports:\n  - imp\n")
                yield ("manifest/several-errors-version", {"model.yml": "X: int\n", "old/_package.yml": man, "old/model.yml": "X: int\n"}, "namespace: T\nversions:\n  v0: old\n")
    for n in range(0, nb + 1):
        for bs in itertools.product(BYTES, repeat=n):
            yield ("manifest/bytes", {"model.yml": "X: int\n"}, b"".join(bs))
    # (4b) import / version paths: the package itself, its parent, sub-directories, paths through '..', missing directories
    mfiles = {"model.yml": "X: int\nPz: !protocol\n  sequence:\n    a: X\n", "sub/_package.yml": "namespace: T\n", "sub/model.yml": "X: long\nPz: !protocol\n  sequence:\n    a: X\n",
              "imp/_package.yml": "namespace: Imp\n", "imp/model.yml": "Z: int\n", "imp2/_package.yml": "namespace: Imp2\nimports:\n  - ..\n", "imp2/model.yml": "Z: int\n"}
    paths = [".", "./", "sub/..", "sub", "nosuch", "''", "imp", "..", "imp/../.", "imp2", "sub/../sub"]
    for vp in [None] + paths:
        for ip in [None] + paths:
            if vp is None and ip is None:
                continue
            m = "namespace: T\n"
            if ip is not None:
                m += "imports:\n  - %s\n" % ip
            if vp is not None:
                m += "versions:\n  v0: %s\n" % vp
                if vp in (".", "sub"):
                    m2 = m + "  v1: %s\n" % ("sub" if vp == "." else ".")
                    yield ("manifest/paths", mfiles, m2)
            yield ("manifest/paths", mfiles, m)


_W = {}
LOC = re.compile(r"(model\.yml|_package\.yml)")
LINE = re.compile(r"model\.yml:\d+|yaml: line \d+|line \d+")


def classify(res):
    if res.get("hang"):
        return "hang", "no answer within the hang classifier (20 s)"
    if res.get("died") is not None:
        err = res.get("stderr", "")
        m = re.search(r"(fatal error: [^\n]*|runtime: [^\n]*|signal: [^\n]*)", err)
        what = m.group(1) if m else "process died rc=%s" % res["died"]
        what = re.sub(r"\d+", "N", what)
        return "crash/" + what[:60], err[-400:]
    if res.get("panic") is not None:
        stack = res.get("stack", "")
        frames = re.findall(r"github\.com/microsoft/yardl/tooling/(pkg|internal)/([^\s(]+(?:\([^)]*\))?[^\s(]*)\(", stack)
        frame = next((f[1] for f in frames if "verifharness" not in f[1] and not f[1].startswith("cmd.Verif")), "?")
        msg = re.sub(r"\d+", "N", res["panic"])[:70]
        msg = re.sub(r'"[^"]*"', '"..."', msg)
        return "panic/%s/%s" % (frame, msg), res["panic"][:200]
    err = res.get("err")
    if err is None:
        return "ok", ""
    if not LOC.search(err) and "/c10-" not in err:
        return "unlocated-error/no-file", err[:200]
    if "model.yml" in err and not LINE.search(err):
        if re.search(r"model\.yml: yaml: (?!line)", err):
            # yaml.v3 omits "line N:" for problems it locates on the first line of the document
            return "unlocated-error/no-line/yaml-syntax-error-on-first-line", err[:200]
        return "unlocated-error/no-line/other", err[:200]
    return "error", ""


def run_batch(batch):
    if "h" not in _W:
        _W["dir"] = os.path.join(build.scratch(), "c10-w%d" % os.getpid())
        os.makedirs(_W["dir"], exist_ok=True)
        _W["h"] = build.HarnessProc("frontend", vlimit_kb=6000000)
    d, h = _W["dir"], _W["h"]
    out = []
    counts = {}
    hangs = {}
    for fam, files, pkg in batch:
        if hangs.get(fam.split("/")[0], 0) >= 6:
            # this family already hung six times in this batch (20 s each): the defect is established, the rest of the batch is
            # not evaluated and the run is reported as not exhaustive
            counts[("skipped-after-repeated-hangs", "bad")] = counts.get(("skipped-after-repeated-hangs", "bad"), 0) + 1
            continue
        root = d
        if fam.startswith("importgraph"):
            for sub in os.listdir(d):
                if os.path.isdir(os.path.join(d, sub)):
                    shutil.rmtree(os.path.join(d, sub), ignore_errors=True)
            root = os.path.join(d, "p0")
            files = dict(files)
            files["p0/_package.yml"] = pkg
        elif os.path.isdir(os.path.join(d, "p0")):
            for sub in os.listdir(d):
                if os.path.isdir(os.path.join(d, sub)):
                    shutil.rmtree(os.path.join(d, sub), ignore_errors=True)
        for name, text in list(files.items()) + ([("_package.yml", pkg)] if root == d else []):
            fp = os.path.join(d, name)
            if "/" in name:
                os.makedirs(os.path.dirname(fp), exist_ok=True)
            with open(fp, "wb") as f:
                f.write(text if isinstance(text, bytes) else text.encode())
        res = h.call({"dir": root}, timeout=20)
        if fam.startswith("importgraph"):
            files = {k: v for k, v in files.items()}
            files.setdefault("model.yml", "")
        cls, detail = classify(res)
        if cls == "hang":
            hangs[fam.split("/")[0]] = hangs.get(fam.split("/")[0], 0) + 1
        if cls not in ("ok", "error") and (cls == "hang" or cls.startswith("crash")) and b"300000000" in (
                files["model.yml"] if isinstance(files["model.yml"], bytes) else files["model.yml"].encode()):
            cls = "resource-exhaustion/huge-array-dimension-count"
        counts[(fam.split("/")[0], cls if cls in ("ok", "error") else "bad")] = counts.get((fam.split("/")[0], cls if cls in ("ok", "error") else "bad"), 0) + 1
        if cls not in ("ok", "error"):
            out.append((fam, cls, detail, {k: (v.decode("latin1") if isinstance(v, bytes) else v) for k, v in files.items()},
                        pkg.decode("latin1") if isinstance(pkg, bytes) else pkg))
    return out, counts


def cli_confirm(files, pkg):
    d = os.path.join(build.scratch(), "c10-cli")
    shutil.rmtree(d, ignore_errors=True)
    os.makedirs(d)
    root = d
    if "p0/_package.yml" in files:
        root = os.path.join(d, "p0")
    for name, text in list(files.items()) + ([("_package.yml", pkg)] if root == d else []):
        if name == "model.yml" and root != d:
            continue
        fp = os.path.join(d, name)
        os.makedirs(os.path.dirname(fp), exist_ok=True)
        with open(fp, "wb") as f:
            f.write(text.encode("latin1"))
    outs = []
    for _ in range(3):
        try:
            p = build.run(["sh", "-c", "ulimit -v 6000000; exec \"$@\"", "sh", build.yardl_bin(), "validate"], cwd=root, env=build.run_env(), timeout=30)
            outs.append((p.returncode, p.stderr.decode(errors="replace")[-300:]))
        except Exception as e:
            outs.append(("timeout", str(e)[:100]))
    return outs


class _OutOfTime(Exception):
    pass


def main(tier):
    chk = Check("C10", "exploration", tier,
                "all YAML node trees (tags x scalars x sequences x mappings, 2-3 levels) in 10 syntactic contexts; all type-expression "
                "token strings <=3/4 tokens and computed-field expression token strings <=3/4 tokens in a well-typed host record; all "
                "byte strings <=2/3 bytes over a 29-symbol alphabet; every single-byte deletion/truncation/substitution of valid model "
                "files; manifest node trees and byte strings. non-trivial = inputs that yardl rejects with a located error or that "
                "misbehave (accepted inputs are the trivial ones)")
    build.yardl_bin()
    build.harness_bin()
    chk.set_deadline(600 if tier == "quick" else 3000)
    gen = gen_inputs(tier)
    total = 0
    fams = {}
    bad = {}
    try:
        with Pool(build.NCPU) as pool:
            def batches():
                while True:
                    b = list(itertools.islice(gen, 400))
                    if not b:
                        return
                    yield b
            for out, counts in pool.imap_unordered(run_batch, batches(), chunksize=1):
                for (fam, cls), n in counts.items():
                    fams[(fam, cls)] = fams.get((fam, cls), 0) + n
                    total += n
                    if fam == "skipped-after-repeated-hangs":
                        chk.exhaustive = False
                for fam, cls, detail, files, pkg in out:
                    bad.setdefault(cls, []).append((fam, detail, files, pkg))
                if chk.out_of_time():
                    raise _OutOfTime()
    except _OutOfTime:
        pass
    chk.evaluations = total
    nerr = sum(n for (f, c), n in fams.items() if c == "error")
    for i in range(nerr + sum(len(v) for v in bad.values())):
        pass
    chk.nontrivial = set(range(nerr + sum(len(v) for v in bad.values())))
    for (f, c), n in sorted(fams.items()):
        chk.outcome("%s:%s" % (f, c))
    chk.extra["by_family"] = {"%s:%s" % k: v for k, v in sorted(fams.items())}
    for cls, cases in sorted(bad.items()):
        cases.sort(key=lambda c: sum(len(str(v)) for v in c[2].values()) + len(str(c[3])))
        fam, detail, files, pkg = cases[0]
        cli = cli_confirm(files, pkg)
        confirmed = any(rc not in (0, 1) for rc, _ in cli) or cls.startswith("unlocated")
        desc = "%d inputs; smallest: %r (family %s): %s; CLI x3: %s" % (len(cases), files.get("model.yml", "")[-160:] if pkg == PKG else pkg[-160:], fam, detail[:200], cli)
        if not confirmed:
            chk.extra.setdefault("not_confirmed_by_cli", []).append(desc[:300])
            continue
        chk.fail(cls, desc, {"files": files, "package_yml": pkg, "class": cls, "count": len(cases), "cli": cli})
        chk.sample({"class": cls, "model": files.get("model.yml", "")[-200:], "n": len(cases)})
    chk.sample({"family_counts": chk.extra["by_family"]})
    chk.assumptions += ["in-process LoadPackage + validatePackage stands for `yardl validate`; every misbehaving class is re-run through the real CLI 3x",
                        "memory limit 6 GB (ulimit -v) and 20 s hang classifier per input; typical input takes < 1 ms",
                        "`yardl generate` adds code generation on valid models only, which is exercised by C08"]
    return chk.finish()


def replay(path):
    case = json.load(open(path))["case"]
    print(cli_confirm(case["files"], case["package_yml"]))
    return 0

"""C20 Watch mode converges to the output for the final package contents.

Stateless model checking of the real `yardl generate --watch` code under a controlled scheduler. The watch-mode sources of
the CURRENT tree are instrumented at build time (go build -overlay; nothing in /repo changes): the fsnotify import of
generatecommand.go is redirected to a stand-in whose events the harness injects, time.AfterFunc to a timer the explorer
fires, and scheduling points are inserted where a regeneration reads or writes state shared with other regenerations
(start of generateImpl - reads the process cwd -, after os.Chdir in fetchAndCachePackages, after the package is loaded, inside
updatePackageInfoFromArgs - shared koanf instance -, before each backend, optionally before every output file write).

An execution = scenario (initial package, list of edits with the number of file events each raises) + schedule (which actor
moves at each decision: a parked regeneration, the debounce timer, the next edit). The explorer enumerates every schedule
with at most B preemptions (switching away from a regeneration that could continue); continuing the same actor is free.
At the end of each execution (no edits left, timer idle, all regenerations finished) the output tree must contain, byte for
byte, every file a one-shot `yardl generate` (uninstrumented binary) writes for the final package contents, the process must
still be alive and its event loop must still take events.
"""
import hashlib, json, os, re, shutil, subprocess
from concurrent.futures import ThreadPoolExecutor

import build
from evidence import Check

GH = os.path.join(build.VERIF, "goharness", "watch")


def instrument(src, rules, path):
    for pat, rep, count in rules:
        new, n = re.subn(pat, rep, src, flags=re.S)
        if count is None:
            src = new
            continue
        if n != count:
            raise build.HarnessError("C20 instrumentation: pattern %r matched %d times (expected %d) in %s - the code changed shape; adapt checks/c20.py" % (pat[:60], n, count, path))
        src = new
    return src


def overlay():
    """Instrumented copies of the current sources + the stand-in packages, as a go build overlay."""
    T = build.TOOLING
    od = os.path.join(build.scratch(), "c20ov")
    os.makedirs(od, exist_ok=True)
    rep = {}

    def put(rel, text):
        p = os.path.join(od, rel.replace("/", "__"))
        with open(p, "w") as f:
            f.write(text)
        rep[os.path.join(T, rel)] = p
    imp = '\t"github.com/microsoft/yardl/tooling/internal/verifsched"\n'
    src = open(os.path.join(T, "internal/cmd/generatecommand.go")).read()
    src = instrument(src, [
        (r'\t"github.com/fsnotify/fsnotify"\n', '\tfsnotify "github.com/microsoft/yardl/tooling/internal/veriffsn"\n' + imp, 1),
        (r'time\.AfterFunc\(', 'verifsched.AfterFunc(', 1),
        (r'(func generateImpl\(configArgs map\[string\]string\) \(\*packaging\.PackageInfo, \[\]string, error\) \{\n)', r'\1\tverifsched.Point("gen-start")\n', 1),
        (r'(\tif err := updatePackageInfoFromArgs\(packageInfo, configArgs\); err != nil \{)', r'\tverifsched.Point("loaded")\n\1', 1),
        (r'(\tif packageInfo\.Cpp != nil && !packageInfo\.Cpp\.Disabled \{\n\t\terr = cpp\.Generate)', r'\tverifsched.Point("validated")\n\1', 1),
        (r'(\tif packageInfo\.Python != nil && !packageInfo\.Python\.Disabled \{\n\t\terr = python\.Generate)', r'\tverifsched.Point("gen-python")\n\1', 1),
        (r'(\tif packageInfo\.Json != nil && !packageInfo\.Json\.Disabled \{\n\t\terr = outputJson)', r'\tverifsched.Point("gen-json")\n\1', 1),
        (r'\bsync\.Mutex\b', 'verifsched.Mutex', None),       # waiting for a mutex must be visible to the scheduler
    ], "generatecommand.go")
    if not re.search(r'\bsync\.\w', src):
        src = src.replace('\t"sync"\n', '')
    put("internal/cmd/generatecommand.go", src)
    src = open(os.path.join(T, "pkg/packaging/cache.go")).read()
    src = instrument(src, [
        (r'(\tif err := os\.Chdir\(pwd\); err != nil \{\n\t\treturn nil, err\n\t\}\n)', r'\1\tverifsched.Point("chdir")\n', 1),
        (r'(import \(\n)', r'\1' + imp, 1),
    ], "cache.go")
    put("pkg/packaging/cache.go", src)
    src = open(os.path.join(T, "internal/cmd/configargs.go")).read()
    src = instrument(src, [
        (r'(\tif err := k\.UnmarshalWithConf\()', r'\tverifsched.Point("koanf")\n\1', 1),
        (r'(import \(\n)', r'\1' + imp, 1),
    ], "configargs.go")
    put("internal/cmd/configargs.go", src)
    src = open(os.path.join(T, "internal/iocommon/iocommon.go")).read() if os.path.exists(os.path.join(T, "internal/iocommon/iocommon.go")) else None
    if src is None:
        for fn in os.listdir(os.path.join(T, "internal/iocommon")):
            t = open(os.path.join(T, "internal/iocommon", fn)).read()
            if "func WriteFileIfNeeded" in t:
                ioname, src = fn, t
    else:
        ioname = "iocommon.go"
    src = instrument(src, [
        (r'(func WriteFileIfNeeded\(filename string, contents \[\]byte, perm os\.FileMode\) error \{\n)', r'\1\tverifsched.Point("write")\n', 1),
        (r'(import \(\n)', r'\1' + imp, 1),
    ], ioname)
    put("internal/iocommon/" + ioname, src)
    for rel, srcp in (("internal/verifsched/verifsched.go", "verifsched/verifsched.go"), ("internal/veriffsn/veriffsn.go", "veriffsn/veriffsn.go"),
                      ("cmd/verifwatch/main.go", "verifwatch/main.go")):
        rep[os.path.join(T, rel)] = os.path.join(GH, srcp)
    path = os.path.join(od, "overlay.json")
    with open(path, "w") as f:
        json.dump({"Replace": rep}, f)
    return path


_bin = None


def watch_bin():
    global _bin
    if _bin is None:
        out = os.path.join(build.scratch(), "bin", "verifwatch")
        os.makedirs(os.path.dirname(out), exist_ok=True)
        p = build.run(["go", "build", "-overlay", overlay(), "-o", out, "./cmd/verifwatch"], cwd=build.TOOLING, env=build.goenv())
        if p.returncode != 0:
            raise build.HarnessError("instrumented watch build failed: %s" % p.stderr.decode(errors="replace")[-1500:])
        _bin = out
    return _bin


# --------------------------------------------------------------------------------------------------------------- scenarios

MAN = "namespace: Wq\n%sjson:\n  outputDir: ../out/json\npython:\n  outputDir: ../out/py\n"
IMP_MAN = "namespace: Imp\n"


def model(n_types, tag):
    """A model whose size (and therefore regeneration time and output) depends on n_types; tag makes contents distinct."""
    out = ["Rec%d: !record\n  fields:\n    f%s: int\n    g: string?\n" % (i, tag) for i in range(n_types)]
    out.append("P: !protocol\n  sequence:\n    a: Rec0\n    s%s: !stream\n      items: int\n" % tag)
    return "".join(out)


IMP_MODEL = "Zi: !record\n  fields:\n    v%s: int\n"
MAIN_WITH_IMP = "Ri: !record\n  fields:\n    q%s: Imp.Zi\nP: !protocol\n  sequence:\n    a: Ri\n"


FROZEN = {}


CONFIG = {}      # scenario name -> extra command-line arguments of the watch session (and of the one-shot reference run)


def scenarios(quick):
    """name -> (initial files, edits[(files, events)], uses_import)"""
    S = {}
    plain = {"main/_package.yml": MAN % "", "main/model.yml": model(2, "a")}
    S["one-edit"] = (plain, [({"main/model.yml": model(2, "b")}, 1)])
    S["two-edits-large-then-small"] = (plain, [({"main/model.yml": model(6, "b")}, 1), ({"main/model.yml": model(1, "c")}, 1)])
    S["two-edits-small-then-large"] = (plain, [({"main/model.yml": model(1, "b")}, 2), ({"main/model.yml": model(5, "c")}, 1)])
    S["invalid-then-fixed"] = (plain, [({"main/model.yml": "Broken: [unclosed\n"}, 1), ({"main/model.yml": model(2, "d")}, 1)])
    S["semantic-error-then-fixed"] = (plain, [({"main/model.yml": model(2, "a") + "Bad: NoSuchType\n"}, 1), ({"main/model.yml": model(3, "e")}, 1)])
    S["second-file-added-then-edited"] = (plain, [({"main/extra.yml": "Ex: !record\n  fields:\n    x: int\n"}, 1), ({"main/extra.yml": "Ex: !record\n  fields:\n    y: long\n"}, 1)])
    withimp = {"main/_package.yml": MAN % "imports:\n  - ../imp\n", "main/model.yml": MAIN_WITH_IMP % "a", "imp/_package.yml": IMP_MAN, "imp/model.yml": IMP_MODEL % "a"}
    S["import-edited"] = (withimp, [({"imp/model.yml": IMP_MODEL % "b"}, 1), ({"main/model.yml": MAIN_WITH_IMP % "b"}, 1)])
    S["import-broken-then-fixed"] = (withimp, [({"main/_package.yml": MAN % "imports:\n  - ../nowhere\n"}, 1), ({"main/_package.yml": MAN % "imports:\n  - ../imp\n"}, 1),
                                               ({"main/model.yml": MAIN_WITH_IMP % "c"}, 1)])
    S["import-yaml-broken-then-fixed"] = (withimp, [({"imp/model.yml": "Zi: [unclosed\n"}, 1), ({"imp/model.yml": IMP_MODEL % "c"}, 1)])
    S["import-of-import-unfetchable-then-fixed"] = (withimp, [({"imp/_package.yml": IMP_MAN + "imports:\n  - htps://example.invalid/x\n"}, 1), ({"imp/_package.yml": IMP_MAN}, 1),
                                                           ({"main/model.yml": MAIN_WITH_IMP % "d"}, 1)])
    S["version-of-import-unfetchable-then-fixed"] = (withimp, [({"imp/_package.yml": IMP_MAN + "versions:\n  v0: ftp://example.invalid/y\n"}, 1), ({"imp/_package.yml": IMP_MAN}, 1)])
    S["import-directory-removed-and-restored"] = (withimp, [({}, 1, ["imp"]), ({"imp/_package.yml": IMP_MAN, "imp/model.yml": IMP_MODEL % "a"}, 1),
                                                         ({"main/model.yml": MAIN_WITH_IMP % "e"}, 1), ({"imp/model.yml": IMP_MODEL % "e"}, 1, [], True)])     # the last edit waits for quiescence
    nond = {"main/_package.yml": MAN % "" + "  generateNDJson: false\n", "main/model.yml": model(2, "a")}
    S["python-ndjson-switched-on-later"] = (nond, [({"main/_package.yml": MAN % ""}, 1), ({"main/model.yml": model(2, "g")}, 1)])
    S["python-section-removed"] = (plain, [({"main/_package.yml": "namespace: Wq\njson:\n  outputDir: ../out/json\n"}, 1), ({"main/model.yml": model(2, "h")}, 1, [], True)])
    # out/py must stay what a one-shot generate of the initial contents wrote: the model edit waits until every regeneration
    # that could have read the old manifest is over, so Python output for the new model can only come from stale configuration
    FROZEN["python-section-removed"] = ("py", 0)
    S["manifest-option-edited"] = (plain, [({"main/_package.yml": MAN % "" + "  generateNDJson: false\n"}, 1), ({"main/model.yml": model(2, "f")}, 1)])
    # two previous versions (both carry the package's own namespace); the C++ output embeds their schemas and conversions
    VM = "Rv: !record\n  fields:\n    x: %s\nP: !protocol\n  sequence:\n    a: Rv\n"
    withver = {"main/_package.yml": MAN % "versions:\n  v1: ../v1\n  v2: ../v2\n" + "cpp:\n  sourcesOutputDir: ../out/cpp\n", "main/model.yml": VM % "long",
               "v1/_package.yml": "namespace: Wq\n", "v1/model.yml": VM % "int", "v2/_package.yml": "namespace: Wq\n", "v2/model.yml": VM % "int"}
    S["previous-versions-edited"] = (withver, [({"v1/model.yml": VM % "uint8"}, 1), ({"v2/model.yml": VM % "int16"}, 1)])
    # model files are collected from the package directory recursively
    EX = "Ex: !record\n  fields:\n    %s: int\n"
    S["model-file-in-subdirectory-edited"] = (dict(plain, **{"main/sub/extra.yml": EX % "x"}), [({"main/sub/extra.yml": EX % "y"}, 1)])
    # command-line overrides apply to every regeneration of the session, not only to the first
    CONFIG["override-output-directories"] = ["-c", "json.outputDir=../out/json-override", "-c", "python.generateNDJson=false"]
    S["override-output-directories"] = (plain, [({"main/model.yml": "Broken: [unclosed\n"}, 1), ({"main/model.yml": model(3, "k")}, 1)])
    if not quick:
        S["three-edits"] = (plain, [({"main/model.yml": model(4, "b")}, 1), ({"main/model.yml": model(1, "c")}, 1), ({"main/model.yml": model(3, "d")}, 1)])
        S["import-three-edits"] = (withimp, [({"imp/model.yml": IMP_MODEL % "b"}, 1), ({"main/model.yml": MAIN_WITH_IMP % "b"}, 1), ({"imp/model.yml": IMP_MODEL % "c"}, 1)])
    return S


def tree_hash(root):
    out = {}
    for dp, dn, fn in os.walk(root):
        for f in fn:
            p = os.path.join(dp, f)
            out[os.path.relpath(p, root)] = hashlib.sha256(open(p, "rb").read()).hexdigest()
    return out


class Scenario:
    def __init__(self, name, initial, edits, write_points):
        self.name, self.initial, self.edits, self.write_points = name, initial, edits, write_points
        self.base = os.path.join(build.scratch(), "c20", name)
        # expected output: one-shot generate of the final contents with the plain binary
        final = dict(initial)
        states = [dict(final)]
        for e in edits:
            for d in (e[2] if len(e) > 2 else []):
                final = {k: v for k, v in final.items() if not k.startswith(d + "/")}
            final.update(e[0])
            states.append(dict(final))
        ref = os.path.join(self.base, "ref")
        shutil.rmtree(ref, ignore_errors=True)
        build.write_tree(ref, final)
        self.config = CONFIG.get(name.split("+")[0], [])
        rc, out, err = build.yardl(["generate"] + self.config, cwd=os.path.join(ref, "main"))
        if rc != 0:
            raise build.HarnessError("C20 scenario %s: final contents do not generate: %s" % (name, err[-300:]))
        self.expected = tree_hash(os.path.join(ref, "out"))
        self.final = final
        self.frozen = {}
        base_name = name.split("+")[0]
        if base_name in FROZEN:
            sub, k = FROZEN[base_name]
            fr = os.path.join(self.base, "frozen")
            shutil.rmtree(fr, ignore_errors=True)
            build.write_tree(fr, states[k])
            rc, out, err = build.yardl(["generate"], cwd=os.path.join(fr, "main"))
            if rc != 0:
                raise build.HarnessError("C20 scenario %s: frozen state does not generate: %s" % (name, err[-300:]))
            self.frozen = {k2: h for k2, h in tree_hash(os.path.join(fr, "out")).items() if k2.startswith(sub + "/")}
        self.n = 0

    def run(self, choices, slot):
        wd = os.path.join(self.base, "x%d" % slot)
        shutil.rmtree(wd, ignore_errors=True)
        build.write_tree(wd, self.initial)
        sc = {"dir": os.path.join(wd, "main"), "config": list(self.config),
              "edits": [{"files": {os.path.join(wd, k): v for k, v in e[0].items()}, "events": e[1],
                         "rmdirs": [os.path.join(wd, d) for d in (e[2] if len(e) > 2 else [])], "quiescent": bool(e[3]) if len(e) > 3 else False} for e in self.edits]}
        scp = os.path.join(wd, "scenario.json")
        with open(scp, "w") as f:
            json.dump(sc, f)
        env = build.run_env()
        if self.write_points:
            env["VERIF_WRITE_POINTS"] = "1"
        p = subprocess.run([watch_bin(), scp, ",".join(map(str, choices))], capture_output=True, env=env, timeout=300)
        res = None
        for line in reversed(p.stdout.decode(errors="replace").strip().split("\n")):
            if line.startswith("{"):
                try:
                    res = json.loads(line)
                    break
                except ValueError:
                    pass
        got = tree_hash(os.path.join(wd, "out")) if os.path.isdir(os.path.join(wd, "out")) else {}
        shutil.rmtree(wd, ignore_errors=True)
        return {"rc": p.returncode, "res": res, "stderr": p.stderr.decode(errors="replace")[-600:], "got": got}


def preemptions(decisions):
    """Number of decisions that switch away from the actor scheduled last although it is still enabled (it is listed first)."""
    n = 0
    last = None
    for d in decisions:
        first = d["enabled"][0].split("@")[0]
        chosen = d["enabled"][d["chosen"]].split("@")[0]
        if last is not None and first == last and chosen != last and last.startswith("R"):
            n += 1
        last = chosen
    return n


STATES = set()
TRANS = [0]


def explore(chk, sc, bound, max_exec, pool):
    """Iterative DFS over schedules: run a prefix, take defaults afterwards, branch on every later decision within the bound."""
    frontier = [[]]
    seen = 0
    outcomes = {}
    slot = [0]
    while frontier:
        batch, frontier = frontier[:64], frontier[64:]

        def one(prefix):
            slot[0] += 1
            return prefix, sc.run(prefix, slot[0])
        for prefix, r in pool.map(one, batch):
            seen += 1
            res = r["res"]
            chk.count()
            if res is not None and res.get("unwatched_at_start"):
                chk.fail("stale-output/package-directory-not-watched-during-initial-generation/%s" % sc.name,
                         "scenario %s: the package directory is not watched while the initial generation is in flight (it is still at its first step and the watch "
                         "does not appear): a save made then raises no event and the output stays at the old contents" % sc.name, {"scenario": sc.name, "choices": prefix})
                continue
            if res is not None and res.get("hang"):
                raise build.HarnessError("C20: execution %s of %s did not reach a decision within 120 s: a regeneration blocks on something the scheduler does not control "
                                         "(only sync.Mutex in generatecommand.go is mapped); adapt goharness/watch/verifsched" % (prefix, sc.name))
            if res is None or r["rc"] != 0:
                chk.fail("watcher-died/%s" % sc.name, "scenario %s, schedule %s: the watch process exited or hung (rc %s): %s" % (sc.name, prefix, r["rc"], r["stderr"][-300:]),
                         {"scenario": sc.name, "choices": prefix, "rc": r["rc"], "stderr": r["stderr"]})
                continue
            if res.get("diverged"):
                raise build.HarnessError("C20: schedule %s of %s could not be replayed (choice out of range): nondeterminism in the harness" % (prefix, sc.name))
            dec = res["decisions"]
            for i, c in enumerate(prefix):
                if dec[i]["chosen"] != c:
                    raise build.HarnessError("C20: replay divergence in %s at %d" % (sc.name, i))
            trace = [d["enabled"][d["chosen"]] for d in dec]
            # non-trivial: at least two regenerations were in flight at the same time, or an edit landed while one was parked
            inflight = any(sum(1 for e in d["enabled"] if e.startswith("R")) >= 2 for d in dec) or any(
                d["enabled"][d["chosen"]] == "env" and any(e.startswith("R") for e in d["enabled"]) for d in dec)
            if inflight:
                chk.nontriv((sc.name, tuple(trace)))
            for i in range(len(dec)):
                STATES.add((sc.name, tuple(trace[:i])))
            TRANS[0] += len(dec)
            missing = [k for k, h in sc.expected.items() if r["got"].get(k) != h]
            # output of a target whose section was removed from the manifest must be left as it was
            missing += ["%s (rewritten although its target is no longer configured)" % k for k, h in sc.frozen.items() if r["got"].get(k) not in (None, h)]
            okey = ("stale" if missing else "converged", res["alive"])
            outcomes[okey] = outcomes.get(okey, 0) + 1
            chk.outcome((sc.name,) + okey)
            if not res["alive"]:
                chk.fail("watcher-not-alive/%s" % sc.name, "scenario %s: after schedule %s the event loop no longer takes events" % (sc.name, trace), {"scenario": sc.name, "choices": [d["chosen"] for d in dec], "trace": trace})
            if missing:
                kind = "interleaved" if preemptions(dec) else "sequential"
                if res.get("unwatched_edits"):
                    # an edit in a directory the watcher did not watch (yet) raised no event: only the current directory is
                    # promised by the documentation; imports are watched after the first successful regeneration
                    kind = "edit-outside-watched-directories"
                    # ... which explains the miss only while no regeneration has succeeded yet: once one has (all its points,
                    # including `validated`, precede the edit; it runs to its end before the next decision), every referenced
                    # package's directory is on the watch list
                    env_pos = [i for i, t in enumerate(trace) if t == "env"]
                    for e in res["unwatched_edits"]:
                        if e < len(env_pos):
                            before = trace[:env_pos[e]]
                            done = {t.split("@")[0] for t in before if t.endswith("@validated")} - {t.split("@")[0] for t in trace[env_pos[e]:] if "@" in t}
                            if done:
                                kind = "edit-in-referenced-directory-not-watched-after-successful-regeneration"
                chk.fail("stale-output/%s/%s" % (kind, sc.name), "scenario %s: after edits stopped and every regeneration finished, %d output file(s) differ from a one-shot generate of the final contents (e.g. %s); schedule: %s" % (
                    sc.name, len(missing), missing[0], " > ".join(trace)), {"scenario": sc.name, "choices": [d["chosen"] for d in dec], "trace": trace, "differing": missing[:10],
                                                                              "initial": sc.initial, "edits": sc.edits})
            # branch
            for i in range(len(prefix), len(dec)):
                for alt in range(1, len(dec[i]["enabled"])):
                    cand = [d["chosen"] for d in dec[:i]] + [alt]
                    probe = dec[:i] + [{"enabled": dec[i]["enabled"], "chosen": alt}]
                    if preemptions(probe) <= bound:
                        frontier.append(cand)
            if seen >= max_exec:
                chk.exhaustive = False
                chk.extra.setdefault("capped", []).append(sc.name)
                return seen, outcomes
    return seen, outcomes


def race_pass(chk):
    """Free-running pass under the Go race detector (the cooperative scheduler's hand-offs are happens-before edges, so data
    races between regenerations can only be seen without it): the plain CLI built with -race watches a real directory while
    files are saved faster than a regeneration takes. Not an exploration - only a report of the detector counts."""
    import time
    out = os.path.join(build.scratch(), "bin", "yardl-race")
    p = build.run(["go", "build", "-race", "-o", out, "./cmd/yardl"], cwd=build.TOOLING, env=build.goenv())
    if p.returncode != 0:
        chk.extra["race_pass"] = "race build failed: " + p.stderr.decode(errors="replace")[-200:]
        return
    wd = os.path.join(build.scratch(), "c20", "race")
    shutil.rmtree(wd, ignore_errors=True)
    S = scenarios(True)
    initial, _ = S["import-edited"]
    build.write_tree(wd, initial)
    errf = open(os.path.join(wd, "stderr.txt"), "wb")
    proc = subprocess.Popen([out, "generate", "--watch"], cwd=os.path.join(wd, "main"), stdout=subprocess.DEVNULL, stderr=errf, env=build.run_env())
    try:
        time.sleep(1.5)
        for i in range(60):
            with open(os.path.join(wd, "main", "model.yml"), "w") as f:
                f.write(MAIN_WITH_IMP % ("r%d" % i) + model(1 + (i * 7) % 12, "r%d" % i).replace("P: !protocol", "Pz: !protocol"))
            if i % 3 == 0:
                with open(os.path.join(wd, "imp", "model.yml"), "w") as f:
                    f.write(IMP_MODEL % ("r%d" % i))
            time.sleep(0.004 + (i % 5) * 0.003)
        time.sleep(3)
        alive = proc.poll() is None
    finally:
        proc.kill()
        proc.wait()
        errf.close()
    txt = open(os.path.join(wd, "stderr.txt"), errors="replace").read()
    n = txt.count("WARNING: DATA RACE")
    chk.extra["race_pass"] = {"saves": 60, "data_race_reports": n, "watcher_alive": alive}
    chk.count()
    if n:
        first = txt[txt.index("WARNING: DATA RACE"):][:1500]
        chk.fail("data-race/free-running-watch", "the Go race detector reports %d data race(s) between goroutines of `yardl generate --watch` while files are saved during regenerations: %s" % (n, first[:600]),
                 {"report": first})
    if not alive:
        chk.fail("watcher-died/free-running-watch", "the race-instrumented watcher exited while files were being saved: %s" % txt[-400:], {"stderr": txt[-1500:]})


def main(tier):
    quick = tier == "quick"
    chk = Check("C20", "model_checking", tier,
                "scenarios (initial package + 1-3 edits incl. invalid intermediate states, edits of an imported package, 1 or 2 file events per edit) x "
                "every schedule of {parked regenerations, debounce timer, next edit} with <= 2 (quick) / 3 (thorough) preemptions at the points where a "
                "regeneration touches shared state (cwd read, chdir window, package loaded, koanf, each backend; thorough: + one scenario with a point "
                "before every output file write); non-trivial = an execution in which two regenerations were in flight together or an edit landed while a regeneration was parked")
    build.yardl_bin()
    watch_bin()
    bound = 2 if quick else 3
    S = scenarios(quick)
    stats = {}
    if os.environ.get("C20_RACE_ONLY"):
        S = {}
    with ThreadPoolExecutor(build.NCPU) as pool:
        for name, (initial, edits) in S.items():
            if os.environ.get("C20_ONLY") and name not in os.environ["C20_ONLY"].split(","):
                continue
            sc = Scenario(name, initial, edits, False)
            n, outcomes = explore(chk, sc, bound, 4000 if quick else 60000, pool)
            stats[name] = {"executions": n, "outcomes": {"%s/alive=%s" % k: v for k, v in outcomes.items()}}
        if not quick and not os.environ.get("C20_RACE_ONLY"):
            name = "two-edits-large-then-small"
            sc = Scenario(name + "+write-points", S[name][0], S[name][1], True)
            n, outcomes = explore(chk, sc, 2, 60000, pool)
            stats[sc.name] = {"executions": n, "outcomes": {"%s/alive=%s" % k: v for k, v in outcomes.items()}}
    if not quick:
        race_pass(chk)
    chk.extra["states"] = len(STATES)                    # distinct decision points (scenario, schedule prefix) reached
    chk.extra["transitions"] = TRANS[0]                  # scheduling decisions executed on the real code
    chk.extra["traces_validated_against_impl"] = chk.evaluations   # every explored schedule is an execution of the implementation
    chk.extra["scenarios"] = stats
    chk.extra["preemption_bound"] = bound
    chk.sample({"scenarios": list(S)[:6]})
    chk.assumptions += ["file events are injected by the harness (stand-in for fsnotify): one or two events per edit, delivered before the next decision; the start-up window "
                        "before the watch on '.' exists is not explored",
                        "the debounce timer may fire at any decision after its last reset (every real timing >= 5 ms is some such schedule)",
                        "scheduling points are the listed ones; code between two points runs atomically with respect to other regenerations",
                        "extra files left in the output tree by earlier contents are not counted as stale (a sequence of one-shot runs leaves them too)"]
    return chk.finish()

"""C04 Every stream carries a schema that pins down its encoding.

For a family of single-edit variants of a base package (every wire-affecting edit), wire-neutral rewrites of it (comments
everywhere, computed fields, unrelated definitions, definition order, file layout, expanded syntax) and the packed shape
packages: the schema literal embedded in generated C++, Python and MATLAB and dsl.GetProtocolSchemaString must be identical;
neutral rewrites must leave it byte-identical; and over the whole set the map schema text -> reference wire signature must be a
function (two models that encode some value differently never share a schema)."""
import copy, json, os, re, shutil
from concurrent.futures import ThreadPoolExecutor

import am, build, cppdrv, refcodec, roundtrip, shapes
import c15
from am import P, N, TP, Opt, Union, Vec, Arr, Map, Stream, Record, Enum, Alias, Protocol, Package
from evidence import Check


def signature(pkg, proto):
    """Reference wire signature: everything that determines how values of the protocol are laid out in binary and NDJSON
    (types, field/step names, union tags, enum symbols/values/base/flags, lengths and shapes); not: comments, computed
    fields, protocol name, dimension names, definition order."""
    def sig(t):
        if t is None:
            return None
        k = t[0]
        if k == "prim":
            return t[1]
        if k == "enum":
            e = t[1]
            return ("flags" if e.flags else "enum", refcodec.enum_base(e), tuple(e.values))
        if k == "record":
            return ("record", tuple((fn, sig(ft)) for fn, ft in t[2]))
        if k == "opt":
            return ("opt", sig(t[1]))
        if k == "union":
            return ("union", tuple((tag, sig(c)) for tag, c in t[1]))
        if k == "vec":
            return ("vec", sig(t[1]), t[2])
        if k == "arr":
            d = t[2]
            if isinstance(d, tuple):
                d = tuple(l for _, l in d)
                if all(l is None for l in d):
                    d = len(d)
            return ("arr", sig(t[1]), d)
        if k == "map":
            return ("map", sig(t[1]), sig(t[2]))
        if k == "stream":
            return ("stream", sig(t[1]))
        raise ValueError(t)
    return tuple((sn, sig(am.resolve(pkg, st))) for sn, st in proto.steps)


def matlab_schemas(mdir):
    out = {}
    if not os.path.isdir(mdir):
        return out
    for dp, dn, fn in os.walk(mdir):
        for f in fn:
            if f.endswith("WriterBase.m"):
                m = re.search(r"res = string\('(.*)'\);", open(os.path.join(dp, f)).read())
                if m:
                    out[f[:-len("WriterBase.m")]] = m.group(1).replace("''", "'")
    return out


def generate_and_extract(label, files, rootname, harness):
    root = os.path.join(build.scratch(), "c04", label)
    shutil.rmtree(root, ignore_errors=True)
    build.write_tree(root, files)
    rc, out, err = build.yardl(["generate"], cwd=os.path.join(root, rootname))
    if rc != 0:
        return {"error": err[-600:]}
    outdir = os.path.join(root, "out_" + rootname)
    res = {"cpp": cppdrv.schemas_from_cpp(os.path.join(outdir, "cpp")),
           "py": roundtrip.schemas_from_py(os.path.join(outdir, "py", [d for d in os.listdir(os.path.join(outdir, "py")) if os.path.isdir(os.path.join(outdir, "py", d))][0]))
           if os.path.isdir(os.path.join(outdir, "py")) else {},
           "matlab": matlab_schemas(os.path.join(outdir, "matlab"))}
    h = harness.call({"dir": os.path.join(root, rootname)})
    res["dsl"] = h.get("schemas") or {}
    if h.get("err"):
        res["error"] = h["err"]
    return res


def files_of(pkg, expanded=False, comments=False, split=False, reverse=False):
    p = copy.deepcopy(pkg)
    if reverse:
        p.defs.reverse()
        p.protocols.reverse()
    fs = am.package_files(p, targets=("cpp", "python", "matlab"), cpp_opts={"generateNDJson": "true"})
    key = "%s/model.yml" % p.dirname
    text = am.yaml_model(p, expanded=expanded)
    if comments:
        lines = []
        for i, l in enumerate(text.split("\n")):
            if l.strip() and not l.strip().startswith("#"):
                lines.append(" " * (len(l) - len(l.lstrip())) + "# documentation comment %d" % i)
                lines.append(l + ("  # trailing %d" % i if not l.rstrip().endswith(":") or True else ""))
            else:
                lines.append(l)
        text = "\n".join(lines)
    if split:
        defs_text = [am.yaml_def(d, expanded) for d in list(p.defs) + list(p.protocols)]
        half = len(defs_text) // 2
        del fs[key]
        fs["%s/zz_first.yml" % p.dirname] = "\n".join(defs_text[:half])
        fs["%s/aa_second.yaml" % p.dirname] = "\n".join(defs_text[half:])
        fs["%s/sub/nested.yml" % p.dirname] = "# a third file with only a comment\nLonely: int\n"
    else:
        fs[key] = text
    return fs


def neutral_rewrites(pkg):
    """(label, files) that must leave every protocol schema byte-identical."""
    out = [("expanded-syntax", files_of(pkg, expanded=True)), ("comments-everywhere", files_of(pkg, comments=True)),
           ("definition-order-reversed", files_of(pkg, reverse=True)), ("split-into-files", files_of(pkg, split=True))]
    p = copy.deepcopy(pkg)
    p.defs.append(Record("Unrelated", [("u", P("int32"))]))
    p.defs.append(Enum("UnrelatedE", [("q", 0)]))
    p.protocols.append(Protocol("UnrelatedProto", [("s", N("Unrelated"))]))
    out.append(("unrelated-definitions", files_of(p)))
    p = copy.deepcopy(pkg)
    for d in p.defs:
        if d.kind == "record" and not d.tparams:
            d.computed = [("calc%d" % i, fn) for i, (fn, ft) in enumerate(d.fields) if ft[0] == "prim" and ft[1] in ("int32", "float32", "int64")][:2]
    out.append(("computed-fields", files_of(p)))
    # computed fields that name types nothing else uses (conversion targets, switch patterns): these types are "unrelated
    # definitions" plus "computed fields", so the schema must not mention them; compared with the package that has the two
    # aliases but no computed fields the text must be identical as well
    p = copy.deepcopy(pkg)
    p.defs.append(Alias("OnlyInComputed", P("float64")))
    p.defs.append(Alias("OnlyInPattern", P("float32")))
    for d in p.defs:
        if d.kind == "record" and not d.tparams:
            comp = []
            for i, (fn, ft) in enumerate(d.fields):
                if ft[0] == "prim" and ft[1] in ("int32", "float32", "int64"):
                    comp.append(("conv%d" % i, "%s as OnlyInComputed" % fn))
                if ft[0] == "opt" and ft[1] == P("float32"):
                    comp.append(("pat%d" % i, ["!switch %s:" % fn, "  OnlyInPattern v: v", "  _: 0"]))
            d.computed = comp[:4]
    out.append(("computed-fields-naming-other-types", files_of(p)))
    # a listed previous version (which differs: one more optional field, one more trailing optional step) is not part of
    # "the protocol and the named types it transitively uses": the current schema must not depend on its presence
    p = copy.deepcopy(pkg)
    prev = copy.deepcopy(p)
    prev.dirname = p.dirname + "_v0"
    rec = next((d for d in prev.defs if d.kind == "record" and not d.tparams), None)
    if rec is not None:
        rec.fields.append(("zzOnlyInOldVersion", Opt(P("int32"))))
    for pr in prev.protocols:
        pr.steps = [st for st in pr.steps][:-1] if len(pr.steps) > 1 and pr.steps[-1][1][0] in ("opt", "vec", "stream") else pr.steps
    p.versions = [("v0", prev)]
    out.append(("previous-version-listed", files_of(p)))
    p = copy.deepcopy(pkg)
    for d in p.defs:
        d.comment = "doc for %s\nsecond line" % d.name
    for pr in p.protocols:
        pr.comment = "doc for protocol"
    out.append(("definition-comments", files_of(p)))
    # primitive alias spelling: int32 -> int, float32 -> float ...
    fs = files_of(pkg)
    key = "%s/model.yml" % pkg.dirname
    t = fs[key]
    for canon, alias in (("int32", "int"), ("uint32", "uint"), ("int64", "long"), ("uint64", "ulong"), ("float32", "float"), ("float64", "double"), ("uint8", "byte")):
        t = re.sub(r"\b%s\b" % canon, alias, t)
    fs[key] = t
    out.append(("primitive-alias-spelling", fs))
    return out


PROBE = """Probe: !record
  fields:
    pixels: !array
      items: float
      dimensions:
        #C number of rows
        row:
        #C number of columns
        col:
    fixed: !array
      items: int
      dimensions:
        #C first
        - 2
        #C second
        - 3
    un: !union
      #C the int case
      a: int
      #C the string case
      b: string
    vec: !vector
      #C the items
      items: int
      #C the length
      length: 3
    mp: !map
      #C the keys
      keys: string
      #C the values
      values: int
    nested: !vector
      items: !array
        items: double
        dimensions:
          #C inner dimension
          x: 2
          #C other inner dimension
          y: 2
ProbeE: !enum
  values:
    #C a symbol
    - x
    #C another symbol
    - y
ProbeF: !flags
  values:
    #C a flag
    fa: 1
    #C another flag
    fb: 2
ProbeG<T>: !record
  fields:
    g: !vector
      #C generic items
      items: T
ProbeProto: !protocol
  sequence:
    p: Probe
    e: ProbeE
    f: ProbeF
    g: ProbeG<Probe>
    s: !stream
      #C stream items
      items: Probe
    a: !array
      items: Probe
      dimensions:
        #C step dimension
        d:
"""


def probe_files(with_comments):
    text = PROBE.replace("#C", "#") if with_comments else "\n".join(l for l in PROBE.split("\n") if "#C" not in l)
    return {"probe/_package.yml": "namespace: Probe\ncpp:\n  sourcesOutputDir: ../out_probe/cpp\n  generateHDF5: false\n  generateCMakeLists: false\n"
            "python:\n  outputDir: ../out_probe/py\nmatlab:\n  outputDir: ../out_probe/matlab\n", "probe/model.yml": text}


def main(tier):
    quick = tier == "quick"
    chk = Check("C04", "exploration", tier,
                "40 single-edit variants of a base package + 8 wire-neutral rewrites of the base and of 6 variants + every protocol of the "
                "packed shape packages: schema literal in generated C++ / Python / MATLAB and dsl.GetProtocolSchemaString compared; neutral "
                "rewrites must keep it byte-identical; schema text -> reference wire signature must be a function over the whole set; "
                "non-trivial = distinct (package, protocol) schemas extracted")
    build.yardl_bin()
    harness = build.HarnessProc("schema")
    vs = c15.variants()
    table = {}     # schema text -> (signature, where)
    base_schema = {}

    def record(label, pkg, res):
        chk.count()
        if "error" in res:
            raise build.HarnessError("variant %s: %s" % (label, res["error"]))
        for pr in pkg.protocols:
            texts = {src: res[src].get(pr.name) for src in ("cpp", "py", "matlab", "dsl")}
            if any(v is None for v in texts.values()):
                chk.fail("schema-literal-missing/%s" % "+".join(s for s, v in texts.items() if v is None), "%s.%s: no schema literal found in %s" % (
                    label, pr.name, [s for s, v in texts.items() if v is None]), {"variant": label, "protocol": pr.name})
                continue
            if len(set(texts.values())) != 1:
                srcs = sorted(texts)
                diff = [(a, b) for a in srcs for b in srcs if a < b and texts[a] != texts[b]]
                chk.fail("schema-differs-between-backends/%s" % "+".join("%s!=%s" % d for d in diff[:2]),
                         "%s.%s: embedded schema differs between %s" % (label, pr.name, diff), {"variant": label, "protocol": pr.name, "texts": texts, "model": am.yaml_model(pkg)})
                continue
            text = texts["dsl"]
            chk.nontriv((label, pr.name))
            sig = signature(pkg, pr)
            prev = table.setdefault(text, (sig, label, pr.name, am.yaml_model(pkg)))
            if prev[0] != sig:
                chk.fail("same-schema-different-encoding/%s<->%s" % tuple(sorted([prev[1], label])),
                         "packages '%s' and '%s' embed the identical schema for protocol %s although values are encoded differently" % (prev[1], label, pr.name),
                         {"a": prev[1], "b": label, "protocol": pr.name, "schema": text, "model_a": prev[3], "model_b": am.yaml_model(pkg)})
        return {pr.name: res["dsl"].get(pr.name) for pr in pkg.protocols}

    with ThreadPoolExecutor(build.NCPU) as ex:
        futs = []
        for label, pkg, cls in vs:
            pk = copy.deepcopy(pkg)
            futs.append((label, pk, ex.submit(generate_and_extract, "v_" + label, files_of(pk), pk.dirname, build.HarnessProc("schema"))))
        results = {}
        for label, pk, f in futs:
            results[label] = record(label, pk, f.result())
        # wire-affecting edits must change the schema of the edited protocol
        bs = results["base"]
        for label, pkg, cls in vs:
            if label == "base":
                continue
            pn = pkg.protocols[0].name
            if results[label].get(pn) is not None and results[label].get(pn) == bs.get("Proto"):
                chk.fail("edit-does-not-change-schema/%s" % label, "single edit '%s' (%s) leaves the schema text identical to the base" % (label, cls), {"variant": label})
        # neutral rewrites
        targets = [v for v in vs if v[0] in ("base", "rec-field-added", "union-tags", "enum-base", "generic-definition", "imported-type-with-same-simple-name")]
        if quick:
            targets = targets[:2]
        nfuts = []
        for label, pkg, cls in targets:
            for nl, fs in neutral_rewrites(pkg):
                nfuts.append((label, nl, pkg, ex.submit(generate_and_extract, "n_%s_%s" % (label, nl), fs, pkg.dirname, build.HarnessProc("schema"))))
        for label, nl, pkg, f in nfuts:
            res = f.result()
            chk.count()
            chk.nontriv((label, nl))
            if "error" in res:
                chk.fail("neutral-rewrite-rejected/%s" % nl, "wire-neutral rewrite %s of %s is rejected: %s" % (nl, label, res["error"][:300]), {"variant": label, "rewrite": nl})
                continue
            for pr in pkg.protocols:
                for src in ("cpp", "py", "matlab", "dsl"):
                    got = res[src].get(pr.name)
                    if got != results[label].get(pr.name):
                        chk.fail("neutral-rewrite-changes-schema/%s" % nl, "rewrite '%s' of variant '%s' changes the %s schema of %s" % (nl, label, src, pr.name),
                                 {"variant": label, "rewrite": nl, "source": src, "before": results[label].get(pr.name), "after": got})
                        break
        # comments on nested nodes only (dimensions, union cases, vector/map/stream members, enum symbols) of uncommented fields
        ra = generate_and_extract("probe_plain", probe_files(False), "probe", build.HarnessProc("schema"))
        rb = generate_and_extract("probe_commented", probe_files(True), "probe", build.HarnessProc("schema"))
        chk.count(2)
        chk.nontriv(("probe", "nested-comments"))
        if "error" in ra or "error" in rb:
            raise build.HarnessError("probe package rejected: %s" % (ra.get("error") or rb.get("error")))
        for src in ("cpp", "py", "matlab", "dsl"):
            if ra[src].get("ProbeProto") != rb[src].get("ProbeProto") or ra[src].get("ProbeProto") is None:
                chk.fail("neutral-rewrite-changes-schema/comments-on-nested-nodes", "comments on dimensions / union cases / members of uncommented fields change the %s schema" % src,
                         {"source": src, "before": ra[src].get("ProbeProto"), "after": rb[src].get("ProbeProto"), "model": PROBE})
                break
        # a protocol whose schema is longer than any literal-size or buffer limit a backend might have (> 64 KiB), and a package
        # whose protocols reach asymmetric fixed arrays / fixed vectors only through an imported package (the backends run one
        # after another over one shared model: none may leave it changed for the next)
        big = shapes.bigschema_package()
        lib = Package("Lib", defs=[Record("Rec", [("m", Arr(P("float32"), [3, 4])), ("v", Vec(P("int32"), 5)), ("n", Arr(P("float64"), [("a", 2), ("b", 3), ("c", 4)]))]),
                                   Alias("Mat", Arr(P("float32"), [2, 5])), Alias("Grid", Arr(TP("T"), [4, 2]), tparams=("T",)),
                                   Record("Outer", [("r", N("Rec")), ("g", N("Grid", P("int16")))])], dirname="lib")
        top = Package("Top", defs=[Record("Own", [("o", Arr(P("uint8"), [7, 2])), ("l", N("Lib.Rec"))])],
                      protocols=[Protocol("Pa", [("rec", N("Lib.Rec")), ("mat", N("Lib.Mat")), ("grid", N("Lib.Grid", P("int32"))), ("recs", Stream(N("Lib.Outer"))),
                                                 ("own", N("Own")), ("arr", Arr(P("float64"), [5, 1, 3]))]),
                                 Protocol("Pb", [("mats", Vec(N("Lib.Mat"))), ("o", Opt(N("Lib.Outer")))])], imports=[lib], dirname="top")
        for label, pkg in (("big-schema", big), ("imported-fixed-arrays", top)):
            fs = am.package_files(pkg, targets=("cpp", "python", "matlab"))
            record(label, pkg, generate_and_extract("x_" + label, fs, pkg.dirname, build.HarnessProc("schema")))
        # packed shape packages: backend equality + function property over thousands of protocol steps
        sh = [s for s in shapes.shapes(1, tier) if not shapes.has_vector_of_bool(s)]
        packed = shapes.pack(sh[::(3 if quick else 1)], "Sch", with_records=False)
        sfuts = []
        for pkg, _ in packed:
            fs = am.package_files(pkg, targets=("cpp", "python", "matlab"))
            sfuts.append((pkg, ex.submit(generate_and_extract, "s_" + pkg.namespace, fs, pkg.dirname, build.HarnessProc("schema"))))
        for pkg, f in sfuts:
            record("shapes-" + pkg.namespace, pkg, f.result())
    chk.extra["distinct_schemas"] = len(table)
    chk.sample({"variants": [v[0] for v in vs][:10], "distinct_schemas": len(table)})
    chk.assumptions += ["the header bytes actually written by the generated C++ and Python writers are compared with the schema literal by C01/C02/C03 on every execution (schema-header / ndjson-header checks)",
                        "edits whose effect on encoding the docs do not settle (renaming a referenced type, dimension names) carry no expectation beyond cross-backend equality",
                        "the reference wire signature is ours (resolved type tree with names, tags, enum values, lengths)"]
    return chk.finish()

"""C05 Accepted schema evolution preserves data across versions (C++ binary).

Histories x values: for every documented compatible / partially compatible edit of a base model (C06's edit operators, every
position), in both directions, and for chains of two successive edits, the new package is generated with the old one(s) listed
under `versions`, its C++ reader/writer is compiled and driven in-process:

  forward   every old-version execution (each step varied over all values with <= k deviations, the other steps at their
            defaults; streams: empty, each item alone, all items together) is reference-encoded with the old schema and read by
            the new reader (single-item and batch paths), re-written as current version and reference-decoded: each step must
            equal the documented conversion (lib/evoref.py) of the old value or raise where the documentation allows/demands it
  backward  every new-version execution is written by the new writer constructed with Version::<label>; the output must carry
            the old schema, reference-decode under the old model to the documented conversion, and be accepted by the old
            version's own generated reader with the same values
"""
import copy, itertools, os, shutil
from concurrent.futures import ThreadPoolExecutor

import am, build, cppdrv, evoref, refcodec, roundtrip, values
import c06
from evidence import Check


def short(label):
    return "".join(ch if ch.isalnum() else "_" for ch in label)[:60]


def prepare(pkg, tag, versions=()):
    pkg = copy.deepcopy(pkg)
    pkg.dirname = "n_" + tag
    vs = []
    for i, (lbl, old) in enumerate(versions):
        o = copy.deepcopy(old)
        o.dirname = "o%d_%s" % (i, tag)
        o.versions = []
        vs.append((lbl, o))
    pkg.versions = vs
    return roundtrip.prepare_one(pkg, [], want_cpp=True, want_py=False, with_ndjson=False)


def step_executions(steps, k):
    """[(label, values per step)] - defaults, then one step at a time over its values."""
    defaults = []
    per = []
    for _, t in steps:
        it = t[1] if t[0] == "stream" else t
        vs = values.values(it, k, json_safe=False)
        if it == ("prim", "string"):
            # strings that hold numbers (in range, out of range for the narrow integer types, fractional, with exponent, padded, with a tail)
            vs = list(vs) + ["42", "-7", "300", "70000", "-1", "3.5", "1e3", " 12", "12abc", "99999999999", "-129", "65536"]
        per.append(vs)
        defaults.append([] if t[0] == "stream" else vs[0])
    out = [("defaults", list(defaults))]
    for i, (sn, t) in enumerate(steps):
        vs = per[i]
        if t[0] == "stream":
            for j, v in enumerate(vs):
                e = list(defaults); e[i] = [v]
                out.append(("%s[%d]" % (sn, j), e))
            e = list(defaults); e[i] = list(vs)
            out.append(("%s[all]" % sn, e))
            e = list(defaults); e[i] = list(reversed(vs))
            out.append(("%s[all-reversed]" % sn, e))
        else:
            for j, v in enumerate(vs[1:], 1):
                e = list(defaults); e[i] = v
                out.append(("%s=%d" % (sn, j), e))
    return out


def expected(src_steps, dst_steps, vals):
    """Per destination step the Outcome of converting the source execution."""
    src = {sn: (t, v) for (sn, t), v in zip(src_steps, vals)}
    outs = []
    changed = []
    for sn, t in dst_steps:
        changed.append(not (sn in src and evoref.same(src[sn][0], t)))
        if sn in src:
            st, sv = src[sn]
            if st[0] == "stream" and t[0] == "stream":
                outs.append(evoref.conv(sv, st, t))
            elif st[0] == "stream" or t[0] == "stream":
                outs.append(evoref.Outcome([], silent=True))
            else:
                outs.append(evoref.conv(sv, st, t))
        else:
            outs.append(evoref.exact(evoref.zero(t)))
    return outs, changed


def judge(chk, ctx, direction, label, exlabel, outs, dst_steps, st, out, msg, schema_expect, bufsize):
    """Compares one driver result with the expected outcomes. Returns decoded values or None."""
    must = any(o.must_err for o in outs)
    may = any(o.may_err for o in outs)
    edit_kind = label.split("/")[0]
    chk.outcome((direction, st, "must" if must else "may" if may else "exact"))
    if st in ("DIED", "HANG"):
        chk.fail("%s/%s/%s" % (direction, "crash", edit_kind), "%s: generated C++ %s on %s (%s): %s" % (label, st, exlabel, direction, msg[-300:]), dict(ctx, execution=exlabel, status=st))
        return None
    if st != "OK":
        if must or may:
            return None
        chk.fail("%s/unexpected-error/%s" % (direction, edit_kind), "%s: %s of execution %s raised '%s' although the documented conversion is defined for every value in it (bufsize %d)" % (
            label, direction, exlabel, msg[:200], bufsize), dict(ctx, execution=exlabel, message=msg[:400], bufsize=bufsize))
        return None
    if must:
        chk.fail("%s/no-error-for-missing-union-case/%s" % (direction, edit_kind), "%s: %s of execution %s succeeded although it holds a union case that does not exist in the target version (bufsize %d)" % (
            label, direction, exlabel, bufsize), dict(ctx, execution=exlabel, bufsize=bufsize))
        return None
    try:
        schema, got, _ = refcodec.decode_protocol(dst_steps, out)
    except Exception as e:  # noqa
        chk.fail("%s/undecodable-output/%s" % (direction, edit_kind), "%s: output of %s for execution %s is not a well-formed stream of the target version: %s" % (label, direction, exlabel, e),
                 dict(ctx, execution=exlabel, output_hex=out[:400].hex(), bufsize=bufsize))
        return None
    if schema_expect is not None and schema != schema_expect:
        chk.fail("%s/wrong-schema-in-header/%s" % (direction, edit_kind), "%s: the stream written for the previous version does not embed that version's schema" % label, dict(ctx, execution=exlabel))
    for (sn, t), o, g in zip(dst_steps, outs, got):
        if o.silent:
            continue
        if not any(evoref.matches(t, alt, g) for alt in o.alts):
            kindname = "stream" if t[0] == "stream" else t[0]
            chk.fail("%s/wrong-value/%s/%s" % (direction, edit_kind, kindname),
                     "%s: %s, execution %s, step '%s' (bufsize %d): got %s, documented conversion gives %s%s" % (
                         label, direction, exlabel, sn, bufsize, repr(g)[:300], " or ".join(repr(a)[:200] for a in o.alts[:3]), " or a runtime error" if o.may_err else ""),
                     dict(ctx, execution=exlabel, step=sn, got=repr(g)[:1000], expected=[repr(a)[:600] for a in o.alts[:4]], may_err=o.may_err, bufsize=bufsize))
            break
    return got


def c05_base():
    """C06's base model plus uses of a two-parameter generic whose first / second argument is an evolving record, directly as step,
    stream item and sole field of a record that is otherwise unchanged."""
    from am import P, N, Stream, Record
    base = c06.base_model()
    base.defs.append(Record("Holder", [("x", N("Pair", N("Header"), P("int32")))]))
    base.defs.append(Record("Holder2", [("y", N("Pair", P("string"), N("Header")))]))
    pr = c06.find(base, "Proto")
    pr.steps += [("hp", N("Pair", N("Header"), P("int32"))), ("hps", Stream(N("Pair", N("Header"), P("string")))), ("hold", N("Holder")),
                 ("hp2", N("Pair", P("int32"), N("Header"))), ("hold2", N("Holder2"))]
    # a record the C++ runtime copies with memcpy (two floats), used as scalar, vector item and stream item; a record with a union
    # field of five cases; fields with names the generated conversion code uses itself
    from am import Vec, Union
    base.defs.append(Record("Pt", [("x", P("float32")), ("y", P("float32"))]))
    base.defs.append(Record("Un5", [("keep", P("int32")), ("u", Union(P("int32"), P("float32"), P("string"), P("bool"), P("int64")))]))
    base.defs.append(Record("Nm", [("value", P("int32")), ("stream", P("int32")), ("item", P("int32"))]))
    pr.steps += [("label", P("string")), ("labels", Stream(P("string")))]
    pr.steps += [("pt", N("Pt")), ("pts", Vec(N("Pt"))), ("ptstream", Stream(N("Pt"))), ("un5", N("Un5")), ("nm", N("Nm")), ("fv", Vec(P("int32"), 3))]
    return base


def container_element_edits(base):
    """Primitive changes of the element type of vectors, streams and map values (record field, step, stream item): the
    documentation lists 'changing between primitive types' without restricting where the primitive sits. Kept only if yardl
    accepts them (run_edit reports a rejected history as such)."""
    from am import P, Vec, Map, Stream
    out = []

    def clone():
        return copy.deepcopy(base)
    for nt in ("int64", "float64", "int16", "string"):
        p = clone()
        pr = c06.find(p, "Proto")
        pr.steps = [(n, Vec(P(nt)) if n == "vec" else t) for n, t in pr.steps]
        out.append(("container-element-primitive/step-vec:int32->%s" % nt, "partial", p))
    for nt in ("int64", "float32"):
        p = clone()
        pr = c06.find(p, "Proto")
        pr.steps = [(n, Vec(P(nt), 3) if n == "fv" else t) for n, t in pr.steps]
        out.append(("container-element-primitive/step-fixed-vector:int32->%s" % nt, "partial", p))
    for nt in ("float64", "int32"):
        p = clone()
        r = c06.find(p, "Sample")
        r.fields = [(n, Vec(P(nt)) if n == "values" else t) for n, t in r.fields]
        out.append(("container-element-primitive/Sample.values:float32->%s" % nt, "partial", p))
    for nt in ("int64", "int16", "float32"):
        p = clone()
        pr = c06.find(p, "Proto2")
        pr.steps = [(n, Stream(P(nt)) if n == "b" else t) for n, t in pr.steps]
        out.append(("container-element-primitive/stream-b:int32->%s" % nt, "partial", p))
    for nt in ("int64", "uint8"):
        p = clone()
        pr = c06.find(p, "Proto")
        pr.steps = [(n, Map(P("string"), P(nt)) if n == "m" else t) for n, t in pr.steps]
        out.append(("container-element-primitive/step-map-value:int32->%s" % nt, "partial", p))
    # the generic record Pair<A, B> is instantiated six times in the model (steps, stream items, fields): field-level changes of the
    # generic definition itself
    from am import Opt
    p = clone()
    r = c06.find(p, "Pair")
    r.fields = list(reversed(r.fields))
    out.append(("generic-record/reorder-fields:Pair", "compatible", p))
    p = clone()
    r = c06.find(p, "Pair")
    r.fields = r.fields + [("c", Opt(P("int32")))]
    out.append(("generic-record/add-optional-field:Pair.c", "compatible", p))
    p = clone()
    r = c06.find(p, "Pair")
    r.fields = [("c", P("string"))] + r.fields
    out.append(("generic-record/add-required-field-first:Pair.c", "compatible", p))
    return out


def small_chain_jobs(k, idx):
    """Histories over a small model of its own (cheap to compile, so every listed version gets its own generated reader): a
    memcpy-able record that changes in the first release only, used as scalar / vector / fixed vector / stream item; a record that
    the protocol reaches only as the type argument of a generic, and that is the only thing that changes."""
    from am import P, N, TP, Opt, Vec, Stream, Record, Protocol, Package

    def model(pt_fields, pixel_fields, extra_steps=(), image_fields=None):
        defs = [Record("Pt", pt_fields), Record("Pixel", pixel_fields),
                Record("Image", image_fields or [("data", Vec(TP("T"))), ("w", P("int32"))], tparams=("T",))]
        steps = [("pt", N("Pt")), ("pts", Vec(N("Pt"))), ("ptf", Vec(N("Pt"), 2)), ("ptstream", Stream(N("Pt"))), ("img", N("Image", N("Pixel"))),
                 ("imgs", Stream(N("Image", N("Pixel")))), ("opx", Opt(N("Image", N("Pixel")))), ("last", P("int32"))] + list(extra_steps)
        return Package("Evo", defs=defs, protocols=[Protocol("Proto", steps)], dirname="evo")
    x, y = ("x", P("float32")), ("y", P("float32"))
    r, g, a = ("r", P("float32")), ("g", P("float32")), ("alpha", Opt(P("float32")))
    added = [("added", Opt(P("int32")))]
    s0 = model([x], [r, g])
    jobs = []

    def job(label, cur, olds):
        jobs.append(("small:" + label, "chain", cur, [(lbl, o, None) for lbl, o in olds], k, "s%d" % next(idx)))
    s1 = model([x, y], [r, g])
    s2 = model([x, y], [r, g], added)
    job("memcpy-record-changed-in-first-release-only/oldest-first", s2, [("v0", s0), ("v1", s1)])
    job("memcpy-record-changed-in-first-release-only/newest-first", s2, [("v1", s1), ("v0", s0)])
    job("memcpy-record-changed-in-last-release-only", s2, [("v0", model([x, y], [r, g])), ("v1", model([x], [r, g], added))])
    job("memcpy-record-field-added", s1, [("v0", s0)])
    job("memcpy-record-fields-reordered-then-step-added", model([y, x], [r, g], added), [("v0", model([x, y], [r, g])), ("v1", model([y, x], [r, g]))])
    job("generic-argument-record-gains-optional-field", model([x], [r, g, a]), [("v0", s0)])
    job("generic-argument-record-loses-optional-field", s0, [("v0", model([x], [r, g, a]))])
    job("generic-argument-record-reordered", model([x], [g, r]), [("v0", s0)])
    job("generic-argument-record-changed-then-other-record-changed", model([x, y], [r, g, a]), [("v0", s0), ("v1", model([x], [r, g, a]))])
    # the evolving record lives in an imported package (whose previous version is imported by the previous version of the main package)
    def with_lib(pt_fields, own_types, libdir):
        lib = Package("Lib", defs=[Record("Pt", pt_fields), Record("Wide", [("n", P("string")), ("p", N("Pt"))])], dirname=libdir)
        defs = [Record("Own", [("o", P("int32")), ("p", N("Lib.Pt"))])] if own_types else []
        steps = [("pt", N("Lib.Pt")), ("pts", Vec(N("Lib.Pt"))), ("ptf", Vec(N("Lib.Pt"), 2)), ("ptstream", Stream(N("Lib.Pt"))), ("wide", N("Lib.Wide")), ("last", P("int32"))]
        if own_types:
            steps.append(("own", N("Own")))
        return Package("Evo", defs=defs, protocols=[Protocol("Proto", steps)], imports=[lib], dirname="evo")
    for own in (True, False):
        sfx = "" if own else "/main-package-without-types"
        job("imported-memcpy-record-field-added" + sfx, with_lib([x, y], own, "libn"), [("v0", with_lib([x], own, "libo"))])
        job("imported-memcpy-record-field-removed" + sfx, with_lib([x], own, "libn"), [("v0", with_lib([x, y], own, "libo"))])
    job("generic-definition-gains-optional-field", model([x], [r, g], image_fields=[("data", Vec(TP("T"))), ("w", P("int32")), ("note", Opt(P("string")))]), [("v0", s0)])
    return jobs


def run_edit(job):
    """job: (label, cls, new pkg, [(version label, old pkg, old Prepared)]) ; returns list of records for the main thread."""
    label, cls, newpkg, olds, k, tag = job
    recs = []
    own = []
    olds2 = []
    for i, (lbl, o, opr) in enumerate(olds):
        if opr is None:                 # this history has its own old side
            opr = prepare(o, tag + "own%d" % i)
            own.append(opr)
            if opr.cpp is None:
                for x in own:
                    x.close()
                return label, cls, "old-side-does-not-build", (opr.gen_err or str(list(opr.cpp_errors.values())[:1]))[-300:], recs
        olds2.append((lbl, o, opr))
    olds = olds2
    pr = prepare(newpkg, tag, [(lbl, o) for lbl, o, _ in olds])
    if pr.gen_rc != 0:
        for x in own:
            x.close()
        return label, cls, "rejected", pr.gen_err[-300:], recs
    if pr.cpp is None:
        err = list(pr.cpp_errors.values())[0][:800] if pr.cpp_errors else "?"
        pr.close()
        return label, cls, "compile-error", err, recs
    odrvs = []
    try:
        for lbl, oldpkg, opr in olds:
            odrv = cppdrv.Driver(opr.cpp.exe)      # own process: the old side's Prepared is shared between jobs
            odrvs.append(odrv)
            for proto in newpkg.protocols:
                if proto.name not in opr.steps:
                    continue
                Pn = proto.name
                nsteps, osteps = pr.steps[Pn], opr.steps[Pn]
                oschema, nschema = opr.schemas[Pn], pr.schemas[Pn]
                # forward: old stream -> new reader -> new writer
                for exlabel, vals in step_executions(osteps, k):
                    data = refcodec.encode_protocol(osteps, vals, oschema, None)
                    outs, changed = expected(osteps, nsteps, vals)
                    for bs in (1, 3):
                        st, out, msg = pr.cpp.call(Pn, "b2b", data, bs)
                        recs.append(("forward", lbl, Pn, exlabel, outs, nsteps, st, out, msg, None, bs, None, changed))
                # backward: new stream -> new reader -> new writer(Version::lbl) -> old reference decoder and old generated reader
                for exlabel, vals in step_executions(nsteps, k):
                    data = refcodec.encode_protocol(nsteps, vals, nschema, None)
                    outs, changed = expected(nsteps, osteps, vals)
                    for bs in (1, 3):
                        st, out, msg = pr.cpp.call(Pn, "b2b@" + lbl, data, bs)
                        old_reader = None
                        if st == "OK":
                            st2, out2, msg2 = odrv.call(Pn, "b2b", out, 1)
                            old_reader = (st2, out2, msg2)
                        recs.append(("backward", lbl, Pn, exlabel, outs, osteps, st, out, msg, oschema, bs, old_reader, changed))
    finally:
        pr.close()
        for d in odrvs:
            d.close()
        for x in own:
            x.close()
            shutil.rmtree(x.root, ignore_errors=True)
        shutil.rmtree(pr.root, ignore_errors=True)
        for i in range(len(olds)):
            shutil.rmtree(os.path.join(os.path.dirname(pr.root), "o%d_%s" % (i, tag)), ignore_errors=True)
    return label, cls, "ok", "", recs


def main(tier):
    quick = tier == "quick"
    chk = Check("C05", "model_checking", tier,
                "histories: base model -> every documented compatible / partially compatible edit (C06 operators at every position; quick: first "
                "position per operator) in both directions, plus two-edit chains with both earlier versions listed; per history every execution "
                "that varies one step over all values with <= 1 deviation (streams: each item alone, all items, reversed), forward (old stream "
                "through the new reader, single-item and batch) and backward (new writer targeting the old version, checked by the reference "
                "decoder and by the old version's own generated reader); non-trivial = an execution in which a step whose type differs between the two versions is the one being varied (it is converted, defaulted or dropped on the way)")
    build.yardl_bin()
    cppdrv.inc_dir()
    base = c05_base()
    k = 1
    all_edits = [(lab, cls, p) for lab, cls, p in c06.edits(base) if cls in ("compatible", "partial", "silent")]
    all_edits += container_element_edits(base)
    if quick:
        seen, sel = set(), []
        for lab, cls, p in all_edits:
            kind = lab.split("/")[0]
            if kind in ("add-comment", "reorder-definitions", "add-unused-types", "add-unrelated-protocol"):
                continue
            if kind not in seen or kind in ("change-primitive", "change-primitive-step", "remove-field", "container-element-primitive", "generic-record"):
                seen.add(kind)
                sel.append((lab, cls, p))
        all_edits = sel
    base_pr = prepare(base, "base")
    if base_pr.cpp is None:
        raise build.HarnessError("C05 base model does not build: %s %s" % (base_pr.gen_err[-300:], list(base_pr.cpp_errors.values())[:1]))
    # the old side of reverse histories needs its own generated reader
    jobs = []
    idx = itertools.count()
    for lab, cls, p in all_edits:
        if isinstance(p, tuple):
            jobs.append((lab, cls, p[1], [("v0", p[0], None)], k, "f%d" % next(idx)))
        else:
            jobs.append((lab, cls, p, [("v0", base, base_pr)], k, "f%d" % next(idx)))

    results = []
    with ThreadPoolExecutor(max(2, build.NCPU // 2)) as pool:
        fwd = list(pool.map(run_edit, jobs))
        results += [("forward-history", r) for r in fwd]
        # reverse histories: the edited model is the old version, the base the current one
        rev_jobs = []
        rev_old = []
        for (lab, cls, p), r in zip(all_edits, fwd):
            if r[2] != "ok" or isinstance(p, tuple):
                continue
            if quick and lab.split("/")[0] in ("unchanged-behind-new-alias", "unchanged-with-alias-inlined", "rename-through-alias", "add-alias", "remove-alias"):
                continue
            rev_old.append((lab, cls, p))
        old_prs = list(pool.map(lambda x: prepare(x[2], "ro%d" % next(idx)), rev_old))
        for (lab, cls, p), opr in zip(rev_old, old_prs):
            if opr.cpp is None:
                continue
            rev_jobs.append(("reverse:" + lab, cls, base, [("v0", p, opr)], k, "r%d" % next(idx)))
        rev = list(pool.map(run_edit, rev_jobs))
        results += [("reverse-history", r) for r in rev]
        for opr in old_prs:
            opr.close()
            shutil.rmtree(opr.root, ignore_errors=True)
        # chains: base -> e1 -> e2(e1); current lists v0 = base and v1 = e1
        chain_jobs = []
        chain_src = [e for e in all_edits if not isinstance(e[2], tuple) and e[0].split("/")[0] in ("add-optional-field", "add-required-field", "change-primitive", "make-field-optional-scalar",
                                                                      "remove-field", "reorder-fields-reverse", "add-union-type-step", "change-primitive-step", "add-step-end")]
        if quick:
            chain_src = chain_src[:4]
        firsts = {}
        for lab1, cls1, p1 in chain_src:
            firsts.setdefault(lab1.split("/")[0], (lab1, cls1, p1))
        mids = list(firsts.values())
        mid_prs = list(pool.map(lambda x: prepare(x[2], "m%d" % next(idx)), mids))
        for (lab1, cls1, p1), mpr in zip(mids, mid_prs):
            if mpr.cpp is None:
                continue
            seen2 = set()
            for lab2, cls2, p2 in c06.edits(p1):
                kind2 = lab2.split("/")[0]
                if cls2 not in ("compatible", "partial") or kind2 in seen2 or kind2 not in firsts:
                    continue
                seen2.add(kind2)
                chain_jobs.append(("chain:%s>%s" % (lab1, lab2), "chain", p2, [("v0", base, base_pr), ("v1", p1, mpr)], k, "c%d" % next(idx)))
                if kind2 != lab1.split("/")[0] and not any(j[0].startswith("chain-newest-first:%s>" % lab1) for j in chain_jobs):
                    # the same chain with the versions listed newest first, and with a listed version that equals the current model
                    # (nothing changed since that release) ahead of the changed ones
                    chain_jobs.append(("chain-newest-first:%s>%s" % (lab1, lab2), "chain", p2, [("v1", p1, mpr), ("v0", base, base_pr)], k, "c%d" % next(idx)))
                    chain_jobs.append(("chain-unchanged-release-first:%s>%s" % (lab1, lab2), "chain", p2, [("v2", copy.deepcopy(p2), None), ("v1", p1, mpr), ("v0", base, base_pr)], k, "c%d" % next(idx)))
                if quick and len(seen2) >= 2:
                    break
        chain_jobs += small_chain_jobs(k, idx)
        ch = list(pool.map(run_edit, chain_jobs))
        results += [("chain", r) for r in ch]
        for mpr in mid_prs:
            mpr.close()
            shutil.rmtree(mpr.root, ignore_errors=True)
    base_pr.close()

    nrej = ncomp = 0
    HIST = set()
    for hist, (label, cls, status, err, recs) in results:
        ctx = {"history": label, "class": cls}
        if status == "old-side-does-not-build":
            raise build.HarnessError("C05: old side of %s does not build: %s" % (label, err))
        if status == "rejected":
            nrej += 1
            chk.outcome((hist, "rejected-by-yardl"))
            continue
        if status == "compile-error":
            ncomp += 1
            chk.fail("does-not-compile/%s" % label.split("/")[0].replace("reverse:", "").split(":")[-1], "%s: yardl accepted the history but the generated C++ does not compile: %s" % (label, err[:400]),
                     dict(ctx, error=err))
            continue
        for direction, lbl, Pn, exlabel, outs, dst_steps, st, out, msg, schema_expect, bs, old_reader, changed in recs:
            chk.count()
            # non-trivial: some step of this execution is converted, defaulted, dropped or may/must raise (not a plain copy)
            varied = exlabel.split("=")[0].split("[")[0]
            if any(tag and not o.silent and sn == varied for o, tag, (sn, _) in zip(outs, changed, dst_steps)):
                chk.nontriv((label, lbl, direction, Pn, exlabel, bs))
            HIST.add((label, lbl, direction, Pn))
            d = "%s(%s)" % (direction, lbl) if hist == "chain" else direction
            got = judge(chk, dict(ctx, version=lbl, protocol=Pn), direction, label, exlabel, outs, dst_steps, st, out, msg, schema_expect, bs)
            if old_reader is not None and got is not None:
                st2, out2, msg2 = old_reader
                if st2 != "OK":
                    chk.fail("backward/old-reader-rejects/%s" % label.split("/")[0], "%s: the previous version's generated reader rejects what the new writer produced for it (%s): %s" % (label, exlabel, msg2[:200]),
                             dict(ctx, execution=exlabel, message=msg2[:400]))
                else:
                    try:
                        _, got2, _ = refcodec.decode_protocol(dst_steps, out2)
                        if [refcodec.canon(t, v) for (_, t), v in zip(dst_steps, got2)] != [refcodec.canon(t, v) for (_, t), v in zip(dst_steps, got)]:
                            chk.fail("backward/old-reader-sees-other-values/%s" % label.split("/")[0], "%s: previous version's reader yields other values than the reference decoder (%s)" % (label, exlabel),
                                     dict(ctx, execution=exlabel))
                    except Exception as e:  # noqa
                        chk.fail("backward/old-reader-output-undecodable/%s" % label.split("/")[0], "%s: %s" % (label, e), dict(ctx, execution=exlabel))
    chk.extra["states"] = len(HIST)                      # distinct (history, listed version, direction, protocol) conversion paths
    chk.extra["transitions"] = chk.evaluations           # executions pushed through them
    chk.extra["traces_validated_against_impl"] = chk.evaluations   # each is run on the generated C++ of the new (and old) version
    chk.extra["histories"] = {"forward": len(jobs), "reverse": len([1 for h, _ in results if h == "reverse-history"]), "chains": len([1 for h, _ in results if h == "chain"]),
                              "rejected_by_yardl": nrej, "compile_errors": ncomp}
    chk.sample({"histories": [r[1][0] for r in results[:10]]})
    chk.assumptions += ["reference conversions are written from docs/cpp/evolution.md; where it only says 'may' (overflow, rounding, number<->string) every documented outcome is accepted",
                        "conversions the documentation does not describe (changed vector lengths, enum changes, complex/date primitives) are executed but not compared",
                        "C++ only (the documentation limits evolution support to the C++ binary format); arrays via the stand-in header"]
    return chk.finish()

"""C07 Protocol step order is enforced by generated readers and writers.

Explicit-state search over the real generated abstract base classes (C++ *WriterBase/*ReaderBase with stub Impls, compiled
with -fno-access-control so that state_ is observable; Python *WriterBase/*ReaderBase with stub subclasses) for all
protocols over {non-stream, stream} of length 1..4(5): breadth-first over API call sequences, successor = replay the path on
a fresh object + one call; every call's accept/raise is compared with a per-language reference automaton, a rejected call
must leave the state unchanged, and real-state <-> model-state must be a bijection on the reachable states. MATLAB: the
generated *Base.m methods are parsed into (guard, effect) and searched the same way (generator logic only)."""
import itertools, json, os, re, subprocess, sys
from collections import deque

import am, build, cppdrv
from am import P, Stream, Protocol, Package
from evidence import Check


def patterns(maxlen):
    out = []
    for n in range(1, maxlen + 1):
        for pat in itertools.product("NS", repeat=n):
            out.append("".join(pat))
    return out


def package(pats):
    protos = []
    for pat in pats:
        steps = [("s%d" % i, P("int32") if c == "N" else Stream(P("int32"))) for i, c in enumerate(pat)]
        protos.append(Protocol(pname(pat), steps))
    return Package("Fsm", protocols=protos, dirname="fsm")


# long protocols: the state of a generated reader / writer must be able to count all their steps (in C++ it is a fixed-width integer
# holding up to twice the number of steps)
LONG = {"N" * 130: "Pl130n", "S" * 130: "Pl130s", "NS" * 64: "Pl128ns", "N" * 260: "Pl260n"}


def long_walks(lang, kind, pat):
    """Directed call sequences for a long protocol: the complete in-order walk, and the walk up to step k followed by a call that
    must be refused (a step already passed, step 0 again, a step further ahead, close) for k around 127/128 and 255/256."""
    n = len(pat)

    def visit(i):
        c = pat[i]
        if kind == "W":
            if c == "N":
                return [("W", i)]
            return [("WS", i), ("E", i)] if lang == "cpp" else [("WS", i)]
        if c == "N":
            return [("R", i)]
        return [("RS", i)] if lang == "cpp" else [("R", i), ("N", i)]
    full = []
    for i in range(n):
        full += visit(i)
    out = [full + [("C",)]]
    for k in sorted({1, 63, 64, 126, 127, 128, 129, 254, 255, 256, 257, n - 1} & set(range(1, n))):
        prefix = []
        for i in range(k):
            prefix += visit(i)
        for bad in (visit(0)[0], visit(k - 1)[0], visit(min(k + 1, n - 1))[0] if k + 1 < n else ("C",), ("C",)):
            out.append(prefix + [bad] + visit(k)[:1])
    return out


def pname(pat):
    if pat in LONG:
        return LONG[pat]
    return "P" + pat.lower().capitalize()


# ---------------------------------------------------------------------------------------------- reference automata
class CppWriterRef:
    """state: k = index of the next step. Calls: W i (non-stream write), WS i (stream item), WB i (stream batch), WZ i (empty batch), E i, C."""

    def __init__(self, pat):
        self.pat, self.k = pat, 0

    def key(self):
        return self.k

    def step(self, call):
        op, i = call[0], (call[1] if len(call) > 1 else None)
        n = len(self.pat)
        if op == "C":
            return self.k == n
        if i != self.k or i >= n:
            return False
        if op == "W":
            if self.pat[i] != "N":
                return None
            self.k += 1
            return True
        if self.pat[i] != "S":
            return None
        if op == "E":
            self.k += 1
        return True


class CppReaderRef:
    """state: (k, pending_end, remaining items per stream). Calls: R i, RS i (single), RB i c (batch of capacity c), C.
    Returns (accepted, value) where value is the bool result of a stream read (None otherwise).
    close in the pending-end state (a batch read hit the end but `false` was not yet returned) is not specified by the docs."""

    def __init__(self, pat, rem):
        self.pat, self.k, self.pend, self.rem = pat, 0, False, list(rem)

    def key(self):
        return (self.k, self.pend, tuple(self.rem))

    def step(self, call):
        op = call[0]
        n = len(self.pat)
        if op == "C":
            if self.pend and self.k == n - 1:
                return ("unspecified", None)
            return (self.k == n or getattr(self, "skip", False), None)
        i = call[1]
        if i >= n:
            return (None, None)
        if op == "R":
            if self.pat[i] != "N":
                return (None, None)
            if i == self.k and not self.pend or (self.pend and i == self.k + 1):
                self.k, self.pend = i + 1, False
                return (True, None)
            return (False, None)
        if self.pat[i] != "S":
            return (None, None)
        if self.pend and i == self.k + 1:
            # moving on to the next (stream) step from a pending end is allowed
            self.k, self.pend = i, False
        if i != self.k:
            return (False, None)
        if self.pend:
            self.k, self.pend = i + 1, False
            return (True, False)
        if op == "RS":
            if self.rem[i] > 0:
                self.rem[i] -= 1
                return (True, True)
            self.k = i + 1
            return (True, False)
        cap = call[2]
        got = min(cap, self.rem[i])
        self.rem[i] -= got
        if got == cap:
            return (True, True)
        # the underlying stream ended inside this batch
        if got > 0:
            self.pend = True
            return (True, True)
        self.k = i + 1      # nothing delivered: `false` observed, the step is complete
        return (True, False)


class PyWriterRef:
    """state: (k, open) - k next step, open = the stream step k has received >= 1 write and is not yet ended.
    Calls: W i (value), WS i (iterable of len 2), WE i (empty iterable), WX i (write whose implementation raises), C."""

    def __init__(self, pat):
        self.pat, self.k, self.open = pat, 0, False

    def key(self):
        return (self.k, self.open)

    def step(self, call):
        op = call[0]
        n = len(self.pat)
        if op == "C":
            if self.open and self.k == n - 1:
                self.k, self.open = n, False
                return True
            return self.k == n
        i = call[1]
        if i >= n:
            return None
        if op != "WX" and (op == "W") != (self.pat[i] == "N"):
            return None
        if self.open and i == self.k + 1:
            self.k, self.open = i, False       # writing the next step ends the open stream
        if i != self.k:
            return False
        if op == "WX":
            # the implementation's write fails: the error propagates and the step is not written (it may be retried), but an
            # end-of-stream already emitted for the preceding stream stays emitted - that stream accepts no further items
            return "fault"
        if op == "W":
            self.k += 1
        else:
            self.open = True
        return True


class PyReaderRef:
    """state: (k, iterating) + remaining items. Calls: R i (value or iterable), N i (next() on the iterable of step i), C."""

    def __init__(self, pat, rem):
        self.pat, self.k, self.it, self.rem = pat, 0, False, list(rem)

    def key(self):
        return (self.k, self.it, tuple(self.rem))

    def step(self, call):
        op = call[0]
        n = len(self.pat)
        if op == "C":
            return ((self.k == n and not self.it) or getattr(self, "skip", False), None)
        i = call[1]
        if i >= n:
            return (None, None)
        if op == "R":
            if i != self.k or self.it:
                return (False, None)
            if self.pat[i] == "N":
                self.k += 1
            else:
                self.it = True
            return (True, None)
        # N i: advance the iterable returned by read_s<i>; only meaningful while it is the active one
        if self.pat[i] != "S" or i != self.k or not self.it:
            return (None, None)
        if self.rem[i] > 0:
            self.rem[i] -= 1
            return (True, True)
        self.k, self.it = i + 1, False
        return (True, False)


# ---------------------------------------------------------------------------------------------- C++ driver
def cpp_driver_source(pkg, ns):
    out = ['#include "protocols.h"', "#include <iostream>", "#include <sstream>", "#include <string>", "#include <vector>", "#include <map>",
           "#include <functional>", ""]
    out.append("struct Env { std::vector<int> rem; };")
    for p in pkg.protocols:
        steps = p.steps
        # writer stub
        out.append("struct W_%s : public %s::%sWriterBase {" % (p.name, ns, p.name))
        for i, (sn, st) in enumerate(steps):
            cn = cppdrv.cpp_name(sn)
            if st[0] == "stream":
                out.append("  void Write%sImpl(int32_t const&) override {}" % cn)
                out.append("  void End%sImpl() override {}" % cn)
            else:
                out.append("  void Write%sImpl(int32_t const&) override {}" % cn)
        out.append("  int st() { return state_; }")
        out.append("};")
        out.append("struct R_%s : public %s::%sReaderBase {" % (p.name, ns, p.name))
        out.append("  Env env;")
        out.append("  R_%s(bool skip = false) : %s::%sReaderBase(skip) {}" % (p.name, ns, p.name))
        for i, (sn, st) in enumerate(steps):
            cn = cppdrv.cpp_name(sn)
            if st[0] == "stream":
                out.append("  bool Read%sImpl(int32_t& v) override { if (env.rem[%d] > 0) { env.rem[%d]--; v = 7; return true; } return false; }" % (cn, i, i))
            else:
                out.append("  void Read%sImpl(int32_t& v) override { v = 7; }" % cn)
        out.append("  int st() { return state_; }")
        out.append("};")
        # interpreter
        out.append("static void run_%s(char kind, std::vector<int> rem, std::vector<std::string> const& calls) {" % p.name)
        out.append("  if (kind == 'W') { W_%s w; for (auto const& c : calls) { std::string res = \"ok\"; try {" % p.name)
        out.append("    char op = c[0]; int i = c.size() > 2 ? std::stoi(c.substr(2)) : -1; bool two = c.size() > 1 && c[1] != '_';")
        out.append("    if (op == 'C') w.Close();")
        for i, (sn, st) in enumerate(steps):
            cn = cppdrv.cpp_name(sn)
            if st[0] == "stream":
                out.append("    else if (op == 'S' && i == %d) w.Write%s(int32_t(1));" % (i, cn))
                out.append("    else if (op == 'B' && i == %d) w.Write%s(std::vector<int32_t>{1, 2});" % (i, cn))
                out.append("    else if (op == 'Z' && i == %d) w.Write%s(std::vector<int32_t>{});" % (i, cn))
                out.append("    else if (op == 'E' && i == %d) w.End%s();" % (i, cn))
            else:
                out.append("    else if (op == 'W' && i == %d) w.Write%s(int32_t(1));" % (i, cn))
        out.append("    else res = \"na\"; (void)two;")
        out.append("  } catch (std::exception const& e) { res = \"ex\"; } std::cout << res << \":\" << w.st() << \" \"; } }")
        out.append("  else { R_%s r(kind == 'K'); r.env.rem = rem; for (auto const& c : calls) { std::string res = \"ok\"; try {" % p.name)
        out.append("    char op = c[0]; int i = c.size() > 2 ? std::stoi(c.substr(2)) : -1; int32_t v = 0;")
        out.append("    if (op == 'C') r.Close();")
        for i, (sn, st) in enumerate(steps):
            cn = cppdrv.cpp_name(sn)
            if st[0] == "stream":
                out.append("    else if (op == 'S' && i == %d) { bool b = r.Read%s(v); res = b ? \"okT\" : \"okF\"; }" % (i, cn))
                out.append("    else if ((op == 'A' || op == 'B') && i == %d) { std::vector<int32_t> vs; vs.reserve(op == 'A' ? 1 : 2); bool b = r.Read%s(vs); res = b ? \"okT\" : \"okF\"; res += std::to_string(vs.size()); }" % (i, cn))
            else:
                out.append("    else if (op == 'R' && i == %d) r.Read%s(v);" % (i, cn))
        out.append("    else res = \"na\";")
        out.append("  } catch (std::exception const& e) { res = \"ex\"; } std::cout << res << \":\" << r.st() << \" \"; } }")
        out.append("}")
    out.append("int main() { std::string line; std::map<std::string, std::function<void(char, std::vector<int>, std::vector<std::string> const&)>> t;")
    for p in pkg.protocols:
        out.append('  t["%s"] = run_%s;' % (p.name, p.name))
    out.append(r'''  while (std::getline(std::cin, line)) {
    std::istringstream is(line); std::string proto, kind, rems, c; is >> proto >> kind >> rems;
    std::vector<int> rem; for (char ch : rems) if (ch >= '0' && ch <= '9') rem.push_back(ch - '0');
    std::vector<std::string> calls; while (is >> c) calls.push_back(c);
    t[proto](kind[0], rem, calls); std::cout << std::endl;
  }
  return 0; }''')
    return "\n".join(out)


CPP_CALL = {"W": "W_%d", "WS": "S_%d", "WB": "B_%d", "WZ": "Z_%d", "E": "E_%d", "C": "C", "R": "R_%d", "RS": "S_%d"}


def enc_call_cpp(call):
    if call[0] == "RB":
        return ("A_%d" if call[2] == 1 else "B_%d") % call[1]
    f = CPP_CALL[call[0]]
    return f % call[1] if "%" in f else f


class LineProc:
    def __init__(self, cmd, env=None):
        self.p = subprocess.Popen(cmd, stdin=subprocess.PIPE, stdout=subprocess.PIPE, env=env)

    def ask(self, line):
        self.p.stdin.write((line + "\n").encode())
        self.p.stdin.flush()
        return self.p.stdout.readline().decode().strip()

    def close(self):
        self.p.stdin.close()
        self.p.wait()


PY_STUB = r'''
import sys, importlib
sys.path.insert(0, sys.argv[1])
mod = importlib.import_module(sys.argv[2])
protos = mod.protocols if hasattr(mod, "protocols") else mod

def make_writer(name, pat):
    base = getattr(mod, name + "WriterBase")
    ns = {"_close": lambda self: None, "_end_stream": lambda self: None}
    def mk(c):
        def wr(self, v):
            if getattr(self, "_verif_fail", False):
                raise IOError("injected failure of the implementation")   # environment answer: the sink fails
            if c == "S":
                [x for x in v]
        return wr
    for i, c in enumerate(pat):
        ns["_write_s%d" % i] = mk(c)
    return type("W", (base,), ns)()

def make_concrete_reader(name, pat, rem, fmt):
    import io
    if fmt == "Q":
        W, R, buf = getattr(mod, "Binary" + name + "Writer"), getattr(mod, "Binary" + name + "Reader"), io.BytesIO()
    else:
        W, R, buf = getattr(mod, "NDJson" + name + "Writer"), getattr(mod, "NDJson" + name + "Reader"), io.StringIO()
    w = W(buf)
    for i, c in enumerate(pat):
        getattr(w, "write_s%d" % i)(7 if c == "N" else [7] * rem[i])
    w.close()
    data = buf.getvalue()
    return R(io.BytesIO(data) if fmt == "Q" else io.StringIO(data))

def make_reader(name, pat, rem, skip=False):
    base = getattr(mod, name + "ReaderBase")
    ns = {"_close": lambda self: None}
    for i, c in enumerate(pat):
        if c == "S":
            def gen(self, i=i):
                while rem[i] > 0:
                    rem[i] -= 1
                    yield 7
            ns["_read_s%d" % i] = gen
        else:
            ns["_read_s%d" % i] = lambda self: 7
    return type("R", (base,), ns)(skip) if skip else type("R", (base,), ns)()

for line in sys.stdin:
    parts = line.split()
    name, pat, kind, rems, calls = parts[0], parts[1], parts[2], parts[3], parts[4:]
    rem = [int(ch) for ch in rems if ch.isdigit()]
    out = []
    if kind == "W":
        o = make_writer(name, pat)
    elif kind in ("Q", "J"):
        o = make_concrete_reader(name, pat, rem, kind)
    else:
        o = make_reader(name, pat, rem, skip=(kind == "K"))
    its = {}
    for c in calls:
        op, _, i = c.partition("_")
        i = int(i) if i else -1
        res = "ok"
        try:
            if op == "C":
                o.close()
            elif op == "W":
                getattr(o, "write_s%d" % i)(1)
            elif op == "S":
                getattr(o, "write_s%d" % i)([1, 2])
            elif op == "G":
                getattr(o, "write_s%d" % i)(x for x in [1, 2])
            elif op == "E":
                getattr(o, "write_s%d" % i)([])
            elif op == "X":
                o._verif_fail = True
                try:
                    getattr(o, "write_s%d" % i)(1 if pat[i] == "N" else [1, 2])
                finally:
                    o._verif_fail = False
            elif op == "R":
                v = getattr(o, "read_s%d" % i)()
                if pat[i] == "S":
                    its[i] = iter(v)
            elif op == "N":
                if i not in its:
                    res = "na"
                else:
                    try:
                        next(its[i]); res = "okT"
                    except StopIteration:
                        res = "okF"
            else:
                res = "na"
        except Exception as e:
            res = "ex"
        out.append("%s:%d" % (res, o._state))
    print(" ".join(out), flush=True)
'''


def enc_call_py(call):
    return {"W": "W_%d", "WS": "S_%d", "WG": "G_%d", "WE": "E_%d", "WX": "X_%d", "C": "C", "R": "R_%d", "N": "N_%d"}[call[0]] % call[1] if call[0] != "C" else "C"


# ---------------------------------------------------------------------------------------------- search
def alphabet(lang, kind, pat):
    n = len(pat)
    calls = []
    for i, c in enumerate(pat):
        if lang == "cpp":
            if kind == "W":
                calls += [("W", i)] if c == "N" else [("WS", i), ("WB", i), ("WZ", i), ("E", i)]
            else:
                calls += [("R", i)] if c == "N" else [("RS", i), ("RB", i, 1), ("RB", i, 2)]
        else:
            if kind == "W":
                calls += ([("W", i)] if c == "N" else [("WS", i), ("WG", i), ("WE", i)]) + [("WX", i)]
            else:
                calls += [("R", i)] + ([("N", i)] if c == "S" else [])
    return calls + [("C",)]


def make_ref(lang, kind, pat, rem):
    """kinds: W writer stub, R reader stub, K reader stub constructed with skip_completed_check=true (close() never complains, every
    read is checked as usual), Q / J (Python) the generated binary / NDJSON reader classes themselves over a stream that holds
    `rem` items per stream step."""
    if lang == "cpp":
        r = CppWriterRef(pat) if kind == "W" else CppReaderRef(pat, rem)
    else:
        r = PyWriterRef(pat) if kind == "W" else PyReaderRef(pat, rem)
    if kind == "K":
        r.skip = True
    return r


def ref_call(lang, call):
    if lang == "py" and call[0] in ("WG", "WE"):
        return ("WS", call[1])
    return call


def explore(chk, lang, ask, pat, kind, rem, max_depth, blind_depth, only_seqs=None):
    """BFS over call sequences with state merging (real state, model state); plus blind enumeration to blind_depth.
    only_seqs: run exactly these sequences against the reference automaton instead of searching."""
    name = pname(pat)
    alpha = alphabet(lang, kind, pat)
    enc = enc_call_cpp if lang == "cpp" else enc_call_py
    rems = "r" + "".join(str(x) for x in rem)

    def run(seq):
        line = ("%s %s %s %s " % (name, kind, rems, " ".join(enc(c) for c in seq))) if lang == "cpp" else \
               ("%s %s %s %s %s" % (name, pat, kind, rems, " ".join(enc(c) for c in seq)))
        ans = ask(line).split()
        return [(a.split(":")[0], int(a.split(":")[1])) for a in ans]

    def check_seq(seq):
        """Runs seq on the implementation and the model; returns (ok, real_state, model_key) or None on violation."""
        obs = run(seq)
        ref = make_ref(lang, kind, pat, rem)
        prev_state = 0
        for j, (call, (res, st)) in enumerate(zip(seq, obs)):
            before = ref.key()
            r = ref.step(ref_call(lang, call))
            acc, val = (r if isinstance(r, tuple) else (r, None))
            if acc is None:
                return "na"
            got_acc = res.startswith("ok")
            where = {"lang": lang, "protocol": pat, "object": "writer" if kind == "W" else "reader", "remaining_items": rem,
                     "calls": [list(c) for c in seq[:j + 1]], "observed": obs[:j + 1]}
            if acc == "unspecified":
                return "stop"
            if acc == "fault":
                if got_acc:
                    chk.fail("%s/writer/failure-of-the-implementation-swallowed/%s" % (lang, call[0]), "%s %s: call %d %s returned normally although the implementation's write raised; calls %s" % (
                        lang, pat, j, call, seq[:j + 1]), where)
                    return None
                prev_state = st
                continue
            if acc != got_acc:
                ctx = ""
                la = max([x for x in range(j) if obs[x][0].startswith("ok")], default=None)   # last accepted call
                if lang == "cpp" and kind == "R" and got_acc and call[0] in ("RS", "RB") and la is not None and seq[la][0] == "RB" and \
                        seq[la][1] == call[1] and obs[la][0].startswith("okF"):
                    ctx = "-after-batch-read-returned-false"
                chk.fail("%s/%s/%s/%s%s" % (lang, "writer" if kind == "W" else "reader", "accepted-invalid-call" if got_acc else "rejected-valid-call", call[0], ctx),
                         "%s %s %s: call %d %s %s by the generated code but %s by the reference automaton; calls so far %s" % (
                             lang, pat, kind, j, call, "accepted" if got_acc else "rejected", "accepted" if acc else "rejected", seq[:j + 1]), where)
                return None
            if acc and val is not None and res[2:3] in ("T", "F") and (res[2] == "T") != val:
                chk.fail("%s/reader/wrong-stream-result/%s" % (lang, call[0]), "%s %s: call %d %s returned %s, reference %s; calls %s" % (lang, pat, j, call, res, val, seq[:j + 1]), where)
                return None
            if not acc and st != prev_state:
                chk.fail("%s/%s/state-changed-by-rejected-call/%s" % (lang, "writer" if kind == "W" else "reader", call[0]),
                         "%s %s: rejected call %d %s changed the state %d -> %d" % (lang, pat, j, call, prev_state, st), where)
                return None
            prev_state = st
        return (prev_state, ref.key())

    if only_seqs is not None:
        for seq in only_seqs:
            check_seq(list(seq))
        return len(only_seqs), sum(len(x) for x in only_seqs), 0
    seen = {}
    model_of_real, real_of_model = {}, {}
    frontier = deque([()])
    seen[(0, make_ref(lang, kind, pat, rem).key())] = ()
    states = transitions = 0
    while frontier:
        seq = frontier.popleft()
        if len(seq) >= max_depth or (seq and seq[-1] == ("C",)):
            continue        # nothing is specified about calls after close()
        for call in alpha:
            s2 = seq + (call,)
            r = check_seq(list(s2))
            transitions += 1
            if r in (None, "na", "stop"):
                continue
            real, model = r
            if kind == "W" or lang == "py":
                pass
            # bijection between real states and model states (projected on what the object itself can know)
            proj = model if kind == "W" else model[:2]
            if s2[-1] == ("C",):
                continue
            if real in model_of_real and model_of_real[real] != proj:
                chk.fail("%s/%s/state-not-a-function-of-history" % (lang, "writer" if kind == "W" else "reader"),
                         "%s %s: real state %d corresponds to model states %s and %s" % (lang, pat, real, model_of_real[real], proj),
                         {"lang": lang, "protocol": pat, "calls": [list(c) for c in s2]})
            model_of_real.setdefault(real, proj)
            if proj in real_of_model and real_of_model[proj] != real:
                # two real states for one model state is fine only if the model merges them deliberately; report it
                chk.extra["model_state_with_two_real_states"] = chk.extra.get("model_state_with_two_real_states", 0) + 1
            real_of_model.setdefault(proj, real)
            if (real, model) not in seen:
                seen[(real, model)] = s2
                frontier.append(s2)
    states = len(seen)
    # blind enumeration (no merging)
    blind = 0
    if blind_depth:
        for d in range(1, blind_depth + 1):
            for seq in itertools.product(alpha, repeat=d):
                if ("C",) in seq[:-1]:
                    continue
                check_seq(list(seq))
                blind += 1
    return states, transitions, blind


def matlab_extract(path):
    """Parses generated +ns/*WriterBase.m / *ReaderBase.m methods into {method: (guard state or None, new state or None)}."""
    lines = open(path).read().split("\n")
    meths = {}
    i = 0
    while i < len(lines):
        m = re.match(r"^(\s*)function\s+(?:\w+\s*=\s*)?(\w+)\(self", lines[i])
        if not m:
            i += 1
            continue
        indent, name = m.group(1), m.group(2)
        j = i + 1
        while j < len(lines) and lines[j] != indent + "end":
            j += 1
        body = "\n".join(lines[i + 1:j])
        g = re.search(r"if self\.state_ ~= (\d+)", body)
        e = re.findall(r"self\.state_ = (\d+);", body)
        meths[name] = (int(g.group(1)) if g else None, [int(x) for x in e], body)
        i = j + 1
    return meths


def main(tier):
    quick = tier == "quick"
    chk = Check("C07", "model_checking", tier,
                "all protocols over {non-stream, stream} of length 1..%d; breadth-first search over call sequences on the real generated "
                "base classes (C++ and Python) with state merging on (real state, model state), stream lengths 0..2 as environment, plus "
                "blind enumeration of all call sequences to depth 4 (3 for long protocols); reference automata per language; non-trivial = "
                "every (protocol, object kind, environment) search" % (4 if quick else 5))
    pats = patterns(4 if quick else 5)
    pkg = package(pats + list(LONG))
    root = os.path.join(build.scratch(), "c07")
    rc, err, outdir = cppdrv.generate(pkg, root, targets=("cpp", "python", "matlab"), cpp_opts={"generateNDJson": "false"})
    if rc != 0:
        raise build.HarnessError("yardl rejected the C07 package: " + err[-500:])
    cppdir = os.path.join(outdir, "cpp")
    ns = cppdrv.cpp_namespace(cppdir)
    main_cc = os.path.join(cppdir, "fsm_main.cc")
    open(main_cc, "w").write(cpp_driver_source(pkg, ns))
    ok, objs, errors = cppdrv.compile_objects(cppdir, ["types.cc", "protocols.cc", main_cc], ["-O0", "-fno-access-control"])
    if not ok:
        raise build.HarnessError("C07 C++ driver does not compile: " + list(errors.values())[0][:1500])
    exe = os.path.join(cppdir, "fsmdriver")
    build.run(["g++"] + objs + ["-o", exe], cwd=cppdir, check=True)
    cpp = LineProc([exe])
    stub = os.path.join(root, "pystub.py")
    open(stub, "w").write(PY_STUB)
    py = LineProc([build.PY, stub, os.path.join(outdir, "py"), "fsm"])
    tot_states = tot_trans = tot_blind = 0
    for pat in pats:
        nstream = pat.count("S")
        rems = [[0] * len(pat)]
        if nstream:
            for choice in itertools.product((0, 1, 2), repeat=nstream):
                r, it = [], iter(choice)
                for c in pat:
                    r.append(next(it) if c == "S" else 0)
                rems.append(r)
            rems = [list(x) for x in dict.fromkeys(tuple(r) for r in rems)]
        for lang, proc in (("cpp", cpp), ("py", py)):
            for kind in (("W", "R", "K") if lang == "cpp" else ("W", "R", "K", "Q", "J")):
                envs = rems if kind != "W" else [[0] * len(pat)]
                if kind in ("K", "Q", "J") and len(envs) > 3:
                    envs = [envs[0], envs[len(envs) // 2], envs[-1]]
                if quick and len(envs) > 9:
                    envs = envs[::2]
                for rem in envs:
                    depth = 2 * len(pat) + 3 + sum(rem)
                    blind = (4 if len(pat) <= 3 else 3) if rem == envs[0] else (3 if len(pat) <= 2 else 0)
                    s, t, b = explore(chk, lang, proc.ask, pat, kind, rem, depth, blind)
                    tot_states += s
                    tot_trans += t
                    tot_blind += b
                    chk.count()
                    chk.nontriv((lang, pat, kind, tuple(rem)))
                    chk.outcome((lang, kind, s))
        if len(chk.samples) < 5:
            chk.sample({"protocol": pat, "environments": len(rems), "example_calls": [list(c) for c in alphabet("cpp", "R", pat)][:6]})
    for pat in LONG:
        for lang, proc in (("cpp", cpp), ("py", py)):
            for kind in ("W", "R"):
                rem = [0] * len(pat)
                s, t, b = explore(chk, lang, proc.ask, pat, kind, rem, 0, 0, only_seqs=long_walks(lang, kind, pat))
                tot_states += s
                tot_trans += t
                chk.count()
                chk.nontriv((lang, LONG[pat], kind))
    cpp.close()
    py.close()
    # MATLAB: static extraction of the guarded-command machine
    mdir = os.path.join(outdir, "matlab", "+fsm")
    mstates = 0
    if os.path.isdir(mdir):
        for pat in pats:
            for kind, suffix in (("W", "WriterBase.m"), ("R", "ReaderBase.m")):
                f = os.path.join(mdir, pname(pat) + suffix)
                if not os.path.exists(f):
                    chk.extra["matlab_missing"] = chk.extra.get("matlab_missing", 0) + 1
                    continue
                meths = matlab_extract(f)
                mstates += len(meths)
                n = len(pat)
                expect = {}
                for i, c in enumerate(pat):
                    if kind == "W":
                        expect["write_s%d" % i] = (i, [i + 1] if c == "N" else [])
                        if c == "S":
                            expect["end_s%d" % i] = (i, [i + 1])
                    else:
                        expect["read_s%d" % i] = (i, [i + 1] if c == "N" else [])
                        if c == "S":
                            expect["has_s%d" % i] = (i, [i + 1])
                for mname, (g, eff) in expect.items():
                    chk.count()
                    if mname not in meths:
                        chk.fail("matlab/missing-method", "%s lacks %s" % (os.path.basename(f), mname), {"file": f})
                        continue
                    guard, effects, body = meths[mname]
                    if guard != g or effects != eff:
                        chk.fail("matlab/%s/guard-or-effect/%s" % ("writer" if kind == "W" else "reader", mname.split("_")[0]),
                                 "MATLAB %s.%s: guard state %s / sets %s, reference automaton: guard %d / sets %s" % (pname(pat), mname, guard, effects, g, eff),
                                 {"file": f, "method": mname, "body": body[:600]})
                    if mname.startswith("has_") and "if ~" not in body and "if not" not in body:
                        chk.fail("matlab/reader/has-unconditional", "MATLAB %s.%s advances the state unconditionally" % (pname(pat), mname), {"file": f, "body": body[:600]})
                cm = meths.get("close")
                if cm is None or not re.search(r"self\.state_ ~= %d\b" % n, cm[2]):
                    chk.fail("matlab/close-guard", "MATLAB %s %s.close does not require state %d" % (pname(pat), suffix, n), {"file": f, "body": (cm or (0, 0, ""))[2][:400]})
    chk.extra.update({"states": tot_states, "transitions": tot_trans + tot_blind, "traces_validated_against_impl": tot_trans + tot_blind,
                      "blind_sequences": tot_blind, "protocols": len(pats), "matlab_methods_extracted": mstates})
    chk.assumptions += ["MATLAB classes cannot be executed: only the state guards/effects extracted from the generated *Base.m text are compared (generator logic)",
                        "C++ Close() after a batch read that hit the end of a trailing stream without having returned false is treated as unspecified",
                        "stub Impls: stream lengths 0..2; batch capacities 1 and 2"]
    return chk.finish()

"""C13 Alternative spellings of a model are the same model.

Base packages x spelling-preserving rewrites. Pure syntax alternatives (per type occurrence: shorthand <-> expanded <-> fully
expanded, `T?` <-> `[null, T]`, primitive alias <-> canonical name; non-documentation comments, blank lines, quoting) must give
byte-identical generated trees (C++, Python, MATLAB, JSON); reordering / re-splitting definitions must give identical
acceptance, identical schema literals for every protocol and identical wire behaviour (same bytes / NDJSON from the generated
Python code on a reference stream)."""
import copy, hashlib, itertools, json, os, re, shutil
from concurrent.futures import ThreadPoolExecutor

import am, build, cppdrv, refcodec, roundtrip, rtengine, shapes
import c15
from am import P, N, TP, Opt, Union, Vec, Arr, Map, Stream, Record, Enum, Alias, Protocol, Package
from evidence import Check

ALIASES = {"uint8": "byte", "int32": "int", "uint32": "uint", "int64": "long", "uint64": "ulong", "float32": "float", "float64": "double",
           "complexfloat32": "complexfloat", "complexfloat64": "complexdouble"}


def full(t, alias=False):
    """Fully expanded YAML (flow style) for a type: no shorthand at any level."""
    if t is None:
        return "null"
    k = t[0]
    if k == "prim":
        return ALIASES.get(t[1], t[1]) if alias else t[1]
    if k == "tparam":
        return t[1]
    if k == "named":
        if not t[2]:
            return t[1]
        return "!generic {name: %s, args: [%s]}" % (t[1], ", ".join(full(a, alias) for a in t[2]))
    if k == "opt":
        return "[null, %s]" % full(t[1], alias)
    if k == "union":
        if all(tag is None for tag, _ in t[1]):
            return "[%s]" % ", ".join(full(c, alias) for _, c in t[1])
        return "!union {%s}" % ", ".join(("null: null" if c is None else "%s: %s" % (tag, full(c, alias))) for tag, c in t[1])
    if k == "vec":
        return "!vector {items: %s%s}" % (full(t[1], alias), "" if t[2] is None else ", length: %d" % t[2])
    if k == "arr":
        d = t[2]
        if d is None:
            return "!array {items: %s}" % full(t[1], alias)
        if isinstance(d, int):
            return "!array {items: %s, dimensions: %d}" % (full(t[1], alias), d)
        if all(n is None for n, _ in d):
            if all(l is not None for _, l in d):
                return "!array {items: %s, dimensions: [%s]}" % (full(t[1], alias), ", ".join(str(l) for _, l in d))
            return "!array {items: %s, dimensions: %d}" % (full(t[1], alias), len(d))
        return "!array {items: %s, dimensions: {%s}}" % (full(t[1], alias), ", ".join("%s: %s" % (n, "" if l is None else l) for n, l in d))
    if k == "map":
        return "!map {keys: %s, values: %s}" % (full(t[1], alias), full(t[2], alias))
    if k == "stream":
        return "!stream {items: %s}" % full(t[1], alias)
    raise ValueError(t)


def short_alias(t):
    """Shorthand spelling with primitive aliases, or None."""
    s = am.short(t)
    if s is None:
        return None
    for canon, al in ALIASES.items():
        s = re.sub(r"\b%s\b" % canon, al, s)
    return am._q(s)


def enum_value_spellings(d):
    """Documented spellings of the values of an enum / flags whose values are the automatic ones: explicit map (default of the
    base), list, map with blank values."""
    names = [s for s, _ in d.values]
    return ["{%s}" % ", ".join("%s: %d" % sv for sv in d.values), "[%s]" % ", ".join(names), "{%s}" % ", ".join("%s: " % n for n in names)]


def has_automatic_values(d):
    return [v for _, v in d.values] == ([1 << i for i in range(len(d.values))] if d.flags else list(range(len(d.values))))


def spellings(t):
    """Alternative YAML spellings of one type occurrence (the first is the default used by the base)."""
    if t[0] == "enumvalues":
        return enum_value_spellings(t[1])
    out = [am.yaml_type(t)]
    for alt in (am.yaml_type(t, expanded=True), full(t), full(t, alias=True), short_alias(t)):
        if alt is not None and alt not in out:
            out.append(alt)
    if t[0] == "opt" and am.short(t) is not None:
        out.append("[null, %s]" % am.yaml_type(t[1]))
    return out


def sites(pkg):
    out = []
    for d in list(pkg.defs) + list(pkg.protocols):
        if d.kind == "record":
            out += [(d.name, fn, ft) for fn, ft in d.fields]
        elif d.kind == "protocol":
            out += [(d.name, sn, st) for sn, st in d.steps]
        elif d.kind == "alias":
            out.append((d.name, None, d.type))
        elif d.kind == "enum" and has_automatic_values(d):
            out.append((d.name, "values", ("enumvalues", d)))
    return out


def model_text(pkg, choice=None, order=None):
    """YAML of the model with per-site spelling choice {(def, member): text}; order = list of definition names."""
    choice = choice or {}
    chunks = {}
    for d in list(pkg.defs) + list(pkg.protocols):
        lines = []
        if d.kind == "record":
            lines.append("%s: !record" % am._name(d))
            lines.append("  fields:")
            for fn, ft in d.fields:
                lines.append("    %s: %s" % (fn, choice.get((d.name, fn), am.yaml_type(ft))))
            if d.computed:
                lines.append("  computedFields:")
                for cn, ce in d.computed:
                    lines.append("    %s: %s" % (cn, ce))
        elif d.kind == "enum":
            lines.append("%s: %s" % (d.name, "!flags" if d.flags else "!enum"))
            if d.base:
                lines.append("  base: %s" % d.base)
            if (d.name, "values") in choice:
                lines.append("  values: %s" % choice[(d.name, "values")])
            else:
                lines.append("  values:")
                for s, v in d.values:
                    lines.append("    %s: %d" % (s, v))
        elif d.kind == "alias":
            lines.append("%s: %s" % (am._name(d), choice.get((d.name, None), am.yaml_type(d.type))))
        else:
            lines.append("%s: !protocol" % d.name)
            lines.append("  sequence:")
            for sn, st in d.steps:
                lines.append("    %s: %s" % (sn, choice.get((d.name, sn), am.yaml_type(st))))
        chunks[d.name] = "\n".join(lines) + "\n"
    names = order or [d.name for d in list(pkg.defs) + list(pkg.protocols)]
    return "\n".join(chunks[n] for n in names), chunks


def tree_hash(root):
    out = {}
    for dp, dn, fn in os.walk(root):
        for f in fn:
            p = os.path.join(dp, f)
            out[os.path.relpath(p, root)] = hashlib.sha256(open(p, "rb").read()).hexdigest()
    return out


def generate(slot, pkg, model_files):
    """model_files: {relative file name in the package dir: text}; returns (rc, stderr, tree hash, outdir)."""
    root = os.path.join(build.scratch(), "c13", "s%d" % slot)
    shutil.rmtree(root, ignore_errors=True)
    fs = am.package_files(pkg, targets=("cpp", "python", "matlab", "json"))
    del fs["%s/model.yml" % pkg.dirname]
    for k, v in model_files.items():
        fs["%s/%s" % (pkg.dirname, k)] = v
    build.write_tree(root, fs)
    rc, out, err = build.yardl(["generate"], cwd=os.path.join(root, pkg.dirname))
    outdir = os.path.join(root, "out_" + pkg.dirname)
    return rc, err, (tree_hash(outdir) if rc == 0 and os.path.isdir(outdir) else {}), outdir


def schemas_of(outdir):
    return cppdrv.schemas_from_cpp(os.path.join(outdir, "cpp"))


def base_packages(tier):
    sh = [s for s in shapes.shapes(1, tier) if not shapes.has_vector_of_bool(s)]
    stride = 29 if tier == "quick" else 7
    pk = shapes.pack(sh[::stride], "Spl", per_package=70)[0][0]
    pk2 = copy.deepcopy(c15.base())
    pk2.namespace, pk2.dirname = "Spx", "spx"
    # named types that instantiate an imported generic with local types declared before / after them
    pk2.defs.insert(0, Alias("LW", N("Lib.Wrap", N("Rec2"))))
    pk2.defs.insert(0, Record("Holder", [("h", N("Lib.Wrap", N("Rec"))), ("l", N("LW"))]))
    pk2.protocols[0].steps += [("lw", N("LW")), ("holder", N("Holder"))]
    # containers of optionals / unions (the expanded spelling puts the null case directly under items / values) and enums / flags
    # with automatic values up to the 64-bit boundary, whose three documented value spellings must mean the same
    pk2.defs += [Record("Sp", [("vo", Vec(Opt(P("int32")))), ("vo3", Vec(Opt(P("int32")), 3)), ("mo", Map(P("string"), Opt(P("int32")))),
                               ("ov", Opt(Vec(P("int32")))), ("vu", Vec(Union(P("int32"), P("string")))), ("mv", Map(P("string"), Vec(P("float32")))),
                               ("oo", Opt(Map(P("string"), P("int32")))), ("vuo", Vec(Union(None, P("int32"), P("string"))))]),
                 Enum("Seq3", [("a", 0), ("b", 1), ("c", 2)]),
                 Enum("Fl3", [("r", 1), ("w", 2), ("x", 4)], flags=True),
                 Enum("Fl8", [("b%d" % i, 1 << i) for i in range(8)], base="uint8", flags=True),
                 Enum("Fl64", [("f%d" % i, 1 << i) for i in range(64)], base="uint64", flags=True),
                 Enum("Fl63", [("g%d" % i, 1 << i) for i in range(63)], base="int64", flags=True),
                 Enum("Seq300", [("s%d" % i, i) for i in range(300)], base="uint16")]
    pk2.protocols[0].steps += [("sp", N("Sp")), ("seq3", N("Seq3")), ("fl3", N("Fl3")), ("fl8", N("Fl8")), ("fl64", N("Fl64")), ("fl63", N("Fl63")), ("seq300", N("Seq300"))]
    return [pk, pk2]


def main(tier):
    quick = tier == "quick"
    chk = Check("C13", "exploration", tier,
                "base packages (a packed shape package covering all constructors, and a protocol-centred package with imports and generics) x "
                "rewrites: for every type occurrence (record field, alias, protocol step) each alternative spelling (expanded top level, fully "
                "expanded, fully expanded with primitive aliases, shorthand with aliases, [null, T]) alone (deviation 1; thorough: all pairs of "
                "sites over a stride) and all sites at once; non-documentation comments, blank lines, quoting; every rotation / reversal / adjacent "
                "swap of the definition order and 2-3 file splits; non-trivial = distinct rewritten model texts")
    build.yardl_bin()
    slot_counter = itertools.count()
    jobs = []        # (kind, label, pkg index, model files)
    pkgs = base_packages(tier)
    bases = []
    for pi, pkg in enumerate(pkgs):
        text, chunks = model_text(pkg)
        rc, err, h, outdir = generate(next(slot_counter), pkg, {"model.yml": text})
        if rc != 0:
            raise build.HarnessError("base package %s rejected: %s" % (pkg.namespace, err[-400:]))
        bases.append((text, chunks, h, schemas_of(outdir), outdir))
        st = sites(pkg)
        alts = {(d, m): spellings(t)[1:] for d, m, t in st}
        # deviation 1
        for (d, m), al in alts.items():
            for a in al:
                jobs.append(("syntax", "%s.%s := %s" % (d, m, a[:60]), pi, {"model.yml": model_text(pkg, {(d, m): a})[0]}))
        # every site with its k-th alternative at once
        for k in range(4):
            ch = {s: al[min(k, len(al) - 1)] for s, al in alts.items() if al}
            jobs.append(("syntax", "all-sites-alternative-%d" % k, pi, {"model.yml": model_text(pkg, ch)[0]}))
        if not quick:
            keys = [s for s in alts if alts[s]][::5]
            for a, b in itertools.combinations(keys, 2):
                jobs.append(("syntax", "two-sites", pi, {"model.yml": model_text(pkg, {a: alts[a][0], b: alts[b][-1]})[0]}))
        # comments, blank lines, quoting
        lines = text.split("\n")
        jobs.append(("syntax", "trailing-comments", pi, {"model.yml": "\n".join(l + "  # note" if l.strip() and not l.rstrip().endswith(":") else l for l in lines)}))
        jobs.append(("syntax", "blank-lines", pi, {"model.yml": "\n\n".join(lines)}))
        jobs.append(("syntax", "detached-comments", pi, {"model.yml": "# a file header comment\n\n" + "\n".join(("# detached remark\n\n" + l) if re.match(r"^\w", l) else l for l in lines)}))
        jobs.append(("syntax", "document-markers", pi, {"model.yml": "---\n" + text}))
        jobs.append(("syntax", "windows-line-endings", pi, {"model.yml": text.replace("\n", "\r\n")}))
        jobs.append(("syntax", "quoted-scalars", pi, {"model.yml": re.sub(r": (int32|string|float32|bool)$", r': "\1"', text, flags=re.M)}))
        # definition order and file layout
        names = [d.name for d in list(pkg.defs) + list(pkg.protocols)]
        orders = [list(reversed(names))] + [names[i:] + names[:i] for i in range(1, len(names), max(1, len(names) // (6 if quick else 20)))]
        for i in range(0, len(names) - 1, max(1, len(names) // (8 if quick else 40))):
            o = list(names)
            o[i], o[i + 1] = o[i + 1], o[i]
            orders.append(o)
        for o in orders:
            jobs.append(("order", "definition-order", pi, {"model.yml": model_text(pkg, order=o)[0]}))
        half = len(names) // 2
        jobs.append(("order", "two-files", pi, {"b_second.yml": model_text(pkg, order=names[:half])[0], "a_first.yml": model_text(pkg, order=names[half:])[0]}))
        jobs.append(("order", "three-files-with-subdir", pi, {"z.yml": model_text(pkg, order=names[::3])[0], "m.yaml": model_text(pkg, order=names[1::3])[0],
                                                            "sub/a.yml": model_text(pkg, order=names[2::3])[0]}))
        jobs.append(("order", "one-file-per-definition", pi, {"d%03d.yml" % i: chunks[n] for i, n in enumerate(reversed(names))}))

    def run(job):
        kind, label, pi, mf = job
        rc, err, h, outdir = generate(1000 + jobs_index[id(job)], pkgs[pi], mf)
        sch = schemas_of(outdir) if rc == 0 else {}
        imp = None
        if rc == 0 and kind == "order":
            # the generated Python package of a re-ordered model must still import
            p = build.run([build.PY, "-c", "import sys; sys.path.insert(0, %r); import %s" % (os.path.join(outdir, "py"), pkgs[pi].namespace.lower())], timeout=120)
            imp = None if p.returncode == 0 else p.stderr.decode(errors="replace")[-400:]
        shutil.rmtree(os.path.dirname(outdir), ignore_errors=True)
        return job, rc, err, h, sch, imp

    jobs_index = {id(j): i for i, j in enumerate(jobs)}
    with ThreadPoolExecutor(build.NCPU) as ex:
        results = list(ex.map(run, jobs))
    for (kind, label, pi, mf), rc, err, h, sch, imp in results:
        chk.count()
        chk.nontriv(hash(json.dumps(mf, sort_keys=True)))
        chk.outcome((kind, rc))
        text, chunks, h0, sch0, outdir0 = bases[pi]
        where = {"package": pkgs[pi].namespace, "rewrite": label, "model_files": {k: v[:6000] for k, v in mf.items()}}
        if rc != 0:
            chk.fail("rejected/%s/%s" % (kind, label.split(" := ")[0] if kind != "syntax" else "alternative-spelling"),
                     "the base model is accepted but its rewrite '%s' is rejected: %s" % (label, err[-300:]), where)
            continue
        if kind == "syntax":
            if h != h0:
                diff = sorted(f for f in set(h) | set(h0) if h.get(f) != h0.get(f))
                fam = label.split(" := ")[1].split(" ")[0].split("{")[0] if " := " in label else label
                chk.fail("generated-code-differs/%s" % re.sub(r"[^A-Za-z!\[\]-]", "", fam)[:24],
                         "pure syntax alternative '%s' changes generated files %s" % (label, diff[:5]), dict(where, changed_files=diff[:20]))
        else:
            if imp is not None:
                chk.fail("generated-python-broken-after-reordering/%s" % label, "the generated Python package of the re-ordered model (%s) does not import: %s" % (label, imp[-300:]), where)
            if sch != sch0:
                diff = sorted(p for p in set(sch) | set(sch0) if sch.get(p) != sch0.get(p))
                chk.fail("schema-differs/%s" % label, "re-ordering / re-splitting (%s) changes the schema of protocols %s" % (label, diff[:5]), dict(where, protocols=diff))
            gen_only = {k: v for k, v in h.items() if not k.endswith("model.json")}
            base_only = {k: v for k, v in h0.items() if not k.endswith("model.json")}
            if set(gen_only) != set(base_only):
                chk.fail("generated-file-set-differs/%s" % label, "re-ordering changes the set of generated files", where)
    # wire behaviour after re-ordering: run the generated Python of the reversed-order model against the base model's reference stream
    pkg = pkgs[1]
    names = [d.name for d in list(pkg.defs) + list(pkg.protocols)]
    for label, mf in (("reversed", {"model.yml": model_text(pkg, order=list(reversed(names)))[0]}),
                      ("one-file-per-definition", {"d%03d.yml" % i: bases[1][1][n] for i, n in enumerate(reversed(names))})):
        rc, err, h, outdir = generate(next(slot_counter), pkg, mf)
        if rc != 0:
            continue
        pr0 = cppdrv.Driver(build.PY, args=[os.path.join(build.VERIF, "lib", "pydrv_main.py"), os.path.join(bases[1][4], "py"), pkg.namespace.lower()])
        pr1 = cppdrv.Driver(build.PY, args=[os.path.join(build.VERIF, "lib", "pydrv_main.py"), os.path.join(outdir, "py"), pkg.namespace.lower()])
        for pr in pkg.protocols:
            steps = [(sn, am.resolve(pkg, st)) for sn, st in pr.steps]
            vals = c15.default_values(steps)
            data = refcodec.encode_protocol(steps, vals, bases[1][3][pr.name], None)
            for mode in ("b2b", "b2n"):
                a = pr0.call(pr.name, mode, data, 1)
                b = pr1.call(pr.name, mode, data, 1)
                chk.count()
                if a != b or a[0] != "OK":
                    chk.fail("wire-behaviour-differs/%s" % label, "generated Python of the re-ordered model (%s) behaves differently on the same stream: %s vs %s" % (label, a[0], b[0]),
                             {"protocol": pr.name, "mode": mode, "base": [a[0], a[2][:200]], "rewritten": [b[0], b[2][:200]]})
        pr0.close()
        pr1.close()
    chk.sample({"rewrites": len(jobs), "sites": sum(len(sites(p)) for p in pkgs), "examples": [j[1] for j in jobs[:5]]})
    chk.assumptions += ["documentation comments (attached to an element) legitimately change generated docstrings and are not rewritten here",
                        "model.json is compared for pure syntax alternatives only (it records definition order)"]
    return chk.finish()

"""C13 Alternative spellings of a model are the same model.

Base packages x spelling-preserving rewrites. Pure syntax alternatives (per type occurrence: shorthand <-> expanded <-> fully
expanded, `T?` <-> `[null, T]`, primitive alias <-> canonical name; non-documentation comments, blank lines, quoting) must give
byte-identical generated trees (C++, Python, MATLAB, JSON); reordering / re-splitting definitions must give identical
acceptance, identical schema literals for every protocol and identical wire behaviour (same bytes / NDJSON from the generated
Python code on a reference stream)."""
import copy, hashlib, itertools, json, os, re, shutil
from concurrent.futures import ThreadPoolExecutor

import am, build, cppdrv, refcodec, roundtrip, rtengine, shapes
import c15
from am import P, N, TP, Opt, Union, Vec, Arr, Map, Stream, Record, Enum, Alias, Protocol, Package
from evidence import Check

ALIASES = {"uint8": "byte", "int32": "int", "uint32": "uint", "int64": "long", "uint64": "ulong", "float32": "float", "float64": "double",
           "complexfloat32": "complexfloat", "complexfloat64": "complexdouble"}


def full(t, alias=False):
    """Fully expanded YAML (flow style) for a type: no shorthand at any level."""
    if t is None:
        return "null"
    k = t[0]
    if k == "prim":
        return ALIASES.get(t[1], t[1]) if alias else t[1]
    if k == "tparam":
        return t[1]
    if k == "named":
        if not t[2]:
            return t[1]
        return "!generic {name: %s, args: [%s]}" % (t[1], ", ".join(full(a, alias) for a in t[2]))
    if k == "opt":
        return "[null, %s]" % full(t[1], alias)
    if k == "union":
        if all(tag is None for tag, _ in t[1]):
            return "[%s]" % ", ".join(full(c, alias) for _, c in t[1])
        return "!union {%s}" % ", ".join(("null: null" if c is None else "%s: %s" % (tag, full(c, alias))) for tag, c in t[1])
    if k == "vec":
        return "!vector {items: %s%s}" % (full(t[1], alias), "" if t[2] is None else ", length: %d" % t[2])
    if k == "arr":
        d = t[2]
        if d is None:
            return "!array {items: %s}" % full(t[1], alias)
        if isinstance(d, int):
            return "!array {items: %s, dimensions: %d}" % (full(t[1], alias), d)
        if all(n is None for n, _ in d):
            if all(l is not None for _, l in d):
                return "!array {items: %s, dimensions: [%s]}" % (full(t[1], alias), ", ".join(str(l) for _, l in d))
            return "!array {items: %s, dimensions: %d}" % (full(t[1], alias), len(d))
        return "!array {items: %s, dimensions: {%s}}" % (full(t[1], alias), ", ".join("%s: %s" % (n, "" if l is None else l) for n, l in d))
    if k == "map":
        return "!map {keys: %s, values: %s}" % (full(t[1], alias), full(t[2], alias))
    if k == "stream":
        return "!stream {items: %s}" % full(t[1], alias)
    raise ValueError(t)


def short_alias(t):
    """Shorthand spelling with primitive aliases, or None."""
    s = am.short(t)
    if s is None:
        return None
    for canon, al in ALIASES.items():
        s = re.sub(r"\b%s\b" % canon, al, s)
    return am._q(s)


def enum_value_spellings(d):
    """Documented spellings of the values of an enum / flags whose values are the automatic ones: explicit map (default of the
    base), list, map with blank values."""
    names = [s for s, _ in d.values]
    return ["{%s}" % ", ".join("%s: %d" % sv for sv in d.values), "[%s]" % ", ".join(names), "{%s}" % ", ".join("%s: " % n for n in names)]


def has_automatic_values(d):
    return [v for _, v in d.values] == ([1 << i for i in range(len(d.values))] if d.flags else list(range(len(d.values))))


def spellings(t):
    """Alternative YAML spellings of one type occurrence (the first is the default used by the base)."""
    if t[0] == "enumvalues":
        return enum_value_spellings(t[1])
    out = [am.yaml_type(t)]
    for alt in (am.yaml_type(t, expanded=True), full(t), full(t, alias=True), short_alias(t)):
        if alt is not None and alt not in out:
            out.append(alt)
    if t[0] == "opt" and am.short(t) is not None:
        out.append("[null, %s]" % am.yaml_type(t[1]))
    return out


def sites(pkg):
    out = []
    for d in list(pkg.defs) + list(pkg.protocols):
        if d.kind == "record":
            out += [(d.name, fn, ft) for fn, ft in d.fields]
        elif d.kind == "protocol":
            out += [(d.name, sn, st) for sn, st in d.steps]
        elif d.kind == "alias":
            out.append((d.name, None, d.type))
        elif d.kind == "enum" and has_automatic_values(d):
            out.append((d.name, "values", ("enumvalues", d)))
    return out


def model_text(pkg, choice=None, order=None):
    """YAML of the model with per-site spelling choice {(def, member): text}; order = list of definition names."""
    choice = choice or {}
    chunks = {}
    for d in list(pkg.defs) + list(pkg.protocols):
        lines = []
        if d.kind == "record":
            lines.append("%s: !record" % am._name(d))
            lines.append("  fields:")
            for fn, ft in d.fields:
                lines.append("    %s: %s" % (fn, choice.get((d.name, fn), am.yaml_type(ft))))
            if d.computed:
                lines.append("  computedFields:")
                for cn, ce in d.computed:
                    lines.append("    %s: %s" % (cn, ce))
        elif d.kind == "enum":
            lines.append("%s: %s" % (d.name, "!flags" if d.flags else "!enum"))
            if d.base:
                lines.append("  base: %s" % d.base)
            if (d.name, "values") in choice:
                lines.append("  values: %s" % choice[(d.name, "values")])
            else:
                lines.append("  values:")
                for s, v in d.values:
                    lines.append("    %s: %d" % (s, v))
        elif d.kind == "alias":
            lines.append("%s: %s" % (am._name(d), choice.get((d.name, None), am.yaml_type(d.type))))
        else:
            lines.append("%s: !protocol" % d.name)
            lines.append("  sequence:")
            for sn, st in d.steps:
                lines.append("    %s: %s" % (sn, choice.get((d.name, sn), am.yaml_type(st))))
        chunks[d.name] = "\n".join(lines) + "\n"
    names = order or [d.name for d in list(pkg.defs) + list(pkg.protocols)]
    return "\n".join(chunks[n] for n in names), chunks


def tree_hash(root):
    out = {}
    for dp, dn, fn in os.walk(root):
        for f in fn:
            p = os.path.join(dp, f)
            out[os.path.relpath(p, root)] = hashlib.sha256(open(p, "rb").read()).hexdigest()
    return out


def generate(slot, pkg, model_files):
    """model_files: {relative file name in the package dir: text}; returns (rc, stderr, tree hash, outdir)."""
    root = os.path.join(build.scratch(), "c13", "s%d" % slot)
    shutil.rmtree(root, ignore_errors=True)
    fs = am.package_files(pkg, targets=("cpp", "python", "matlab", "json"))
    del fs["%s/model.yml" % pkg.dirname]
    for k, v in model_files.items():
        fs["%s/%s" % (pkg.dirname, k)] = v
    build.write_tree(root, fs)
    rc, out, err = build.yardl(["generate"], cwd=os.path.join(root, pkg.dirname))
    outdir = os.path.join(root, "out_" + pkg.dirname)
    return rc, err, (tree_hash(outdir) if rc == 0 and os.path.isdir(outdir) else {}), outdir


def schemas_of(outdir):
    return cppdrv.schemas_from_cpp(os.path.join(outdir, "cpp"))


def base_packages(tier):
    sh = [s for s in shapes.shapes(1, tier) if not shapes.has_vector_of_bool(s)]
    stride = 29 if tier == "quick" else 7
    pk = shapes.pack(sh[::stride], "Spl", per_package=70)[0][0]
    pk2 = copy.deepcopy(c15.base())
    pk2.namespace, pk2.dirname = "Spx", "spx"
    # named types that instantiate an imported generic with local types declared before / after them
    pk2.defs.insert(0, Alias("LW", N("Lib.Wrap", N("Rec2"))))
    pk2.defs.insert(0, Record("Holder", [("h", N("Lib.Wrap", N("Rec"))), ("l", N("LW"))]))
    pk2.protocols[0].steps += [("lw", N("LW")), ("holder", N("Holder"))]
    # containers of optionals / unions (the expanded spelling puts the null case directly under items / values) and enums / flags
    # with automatic values up to the 64-bit boundary, whose three documented value spellings must mean the same
    pk2.defs += [Record("Sp", [("vo", Vec(Opt(P("int32")))), ("vo3", Vec(Opt(P("int32")), 3)), ("mo", Map(P("string"), Opt(P("int32")))),
                               ("ov", Opt(Vec(P("int32")))), ("vu", Vec(Union(P("int32"), P("string")))), ("mv", Map(P("string"), Vec(P("float32")))),
                               ("oo", Opt(Map(P("string"), P("int32")))), ("vuo", Vec(Union(None, P("int32"), P("string"))))]),
                 Enum("Seq3", [("a", 0), ("b", 1), ("c", 2)]),
                 Enum("Fl3", [("r", 1), ("w", 2), ("x", 4)], flags=True),
                 Enum("Fl8", [("b%d" % i, 1 << i) for i in range(8)], base="uint8", flags=True),
                 Enum("Fl64", [("f%d" % i, 1 << i) for i in range(64)], base="uint64", flags=True),
                 Enum("Fl63", [("g%d" % i, 1 << i) for i in range(63)], base="int64", flags=True),
                 Enum("Seq300", [("s%d" % i, i) for i in range(300)], base="uint16")]
    # the same union once anonymous (a record field, a step) and once named (an alias): every backend names union types, and
    # which of the two is met first depends on the order of the definitions
    pk2.defs += [Record("UsesAnon", [("value", Union(P("int32"), P("float32")))]),
                 Alias("Reading", Union(P("int32"), P("float32"))),
                 Record("UsesNamed", [("r", N("Reading"))])]
    pk2.protocols[0].steps += [("usesanon", N("UsesAnon")), ("reading", N("Reading")), ("usesnamed", N("UsesNamed")), ("anon", Union(P("int32"), P("float32")))]
    pk2.protocols[0].steps += [("sp", N("Sp")), ("seq3", N("Seq3")), ("fl3", N("Fl3")), ("fl8", N("Fl8")), ("fl64", N("Fl64")), ("fl63", N("Fl63")), ("seq300", N("Seq300"))]
    # the nullable variant in a package of its own (alias first in the base order): see known_findings.txt
    pk3 = Package("Spo", defs=[Alias("ReadingOpt", Union(None, P("int32"), P("float32"))), Record("UsesNamedOpt", [("ro", N("ReadingOpt"))]),
                               Record("UsesAnonOpt", [("n", Union(None, P("int32"), P("float32")))])],
                  protocols=[Protocol("Po", [("a", N("UsesNamedOpt")), ("b", N("UsesAnonOpt")), ("c", N("ReadingOpt"))])], dirname="spo")
    return [pk, pk2, pk3]


def verdict_families():
    """Small models, valid and invalid, made of a few definitions: {family: {definition name: YAML chunk}}. Whether yardl accepts
    a model may not depend on the order of its definitions or on their distribution over files; the oracle is differential (all
    arrangements of one family get the same verdict), so nothing here states what the verdict is."""
    rec = lambda n, *fs: "%s: !record\n  fields:\n%s" % (n, "".join("    %s: %s\n" % f for f in fs))
    fam = {
        "generic-union-one-bad-instantiation": {"Either": "Either<T>: [T, float]\n", "A": rec("A", ("x", "Either<int>")), "B": rec("B", ("x", "Either<float>")),
                                                "C": rec("C", ("x", "Either<string>"))},
        "generic-union-two-params-one-bad": {"U": "U<T, V>: [T, V]\n", "A": rec("A", ("x", "U<int, string>")), "B": rec("B", ("x", "U<int, int>")), "C": "C: U<float, bool>\n"},
        "generic-union-all-good": {"Either": "Either<T>: [T, float]\n", "A": rec("A", ("x", "Either<int>")), "B": rec("B", ("x", "Either<string>")), "C": "C: Either<bool>*\n"},
        "generic-map-key-one-bad": {"M": "M<K>: K->int\n", "A": rec("A", ("x", "M<string>")), "R": rec("R", ("q", "int")), "B": rec("B", ("x", "M<R>"))},
        "generic-map-key-alias-one-bad": {"M": "M<K>: K->int\n", "A": rec("A", ("x", "M<int>")), "K2": "K2: int*\n", "B": rec("B", ("x", "M<K2>"))},
        "generic-optional-of-optional": {"O": "O<T>: T?\n", "A": rec("A", ("x", "O<int>")), "B": rec("B", ("x", "O<int?>"))},
        "generic-record-field-union-one-bad": {"G": rec("G<T>", ("u", "[T, string]")), "A": rec("A", ("x", "G<int>")), "B": rec("B", ("x", "G<string>")), "P": "P: !protocol\n  sequence:\n    a: G<float>\n"},
        "nested-generic-one-bad": {"In": "In<T>: [T, int]\n", "Out": rec("Out<T>", ("i", "In<T>")), "A": rec("A", ("x", "Out<string>")), "B": rec("B", ("x", "Out<int>"))},
        "direct-cycle": {"A": rec("A", ("b", "B")), "B": rec("B", ("c", "C")), "C": rec("C", ("a", "A?"))},
        "cycle-through-vector": {"A": rec("A", ("b", "B*")), "B": rec("B", ("a", "A*")), "C": rec("C", ("a", "A"))},
        "alias-cycle": {"A": "A: B\n", "B": "B: C*\n", "C": "C: A?\n", "D": rec("D", ("a", "A"))},
        "unknown-type-in-one-definition": {"A": rec("A", ("x", "int")), "B": rec("B", ("x", "Missing")), "C": rec("C", ("a", "A"), ("b", "B"))},
        "computed-field-switch-over-generic-union": {"Either": "Either<T>: [T, float]\n",
                                                     "A": "A: !record\n  fields:\n    x: Either<int>\n  computedFields:\n    k:\n      !switch x:\n        int: 1\n        float: 2\n",
                                                     "B": "B: !record\n  fields:\n    x: Either<string>\n  computedFields:\n    k:\n      !switch x:\n        int: 1\n        _: 2\n"},
        "enum-duplicate-value-in-one": {"E1": "E1: !enum\n  values: [a, b]\n", "E2": "E2: !enum\n  values:\n    a: 1\n    b: 1\n", "R": rec("R", ("e", "E1"), ("f", "E2"))},
        "protocol-uses-bad-instantiation": {"Either": "Either<T>: [T, float]\n", "P1": "P1: !protocol\n  sequence:\n    a: Either<int>\n", "P2": "P2: !protocol\n  sequence:\n    a: !stream\n      items: Either<float>\n"},
    }
    return fam


def verdict_part(chk, quick):
    fams = verdict_families()
    jobs = []
    for name, chunks in fams.items():
        names = list(chunks)
        for perm in itertools.permutations(names):
            jobs.append((name, "order:" + ",".join(perm), {"model.yml": "\n".join(chunks[n] for n in perm)}))
            if not quick or perm[0] <= perm[-1]:
                # the same order imposed through file names (files are read in sorted order)
                jobs.append((name, "files:" + ",".join(perm), {"f%02d.yml" % i: chunks[n] for i, n in enumerate(perm)}))
        jobs.append((name, "documents:" + ",".join(names), {"model.yml": "\n---\n".join(chunks[n] for n in names) + "\n"}))
        jobs.append((name, "documents-reversed:" + ",".join(names), {"model.yml": "---\n" + "\n---\n".join(chunks[n] for n in reversed(names)) + "\n"}))
        half = len(names) // 2
        for a in itertools.combinations(names, half):
            rest = [n for n in names if n not in a]
            jobs.append((name, "split:" + ",".join(a) + "|" + ",".join(rest), {"a.yml": "\n".join(chunks[n] for n in a), "b.yml": "\n".join(chunks[n] for n in rest)}))
    base = os.path.join(build.scratch(), "c13v")

    def run(ij):
        i, (name, label, files) = ij
        root = os.path.join(base, "v%d" % i)
        build.write_tree(root, dict({"m/_package.yml": "namespace: Vd\n"}, **{"m/" + k: v for k, v in files.items()}))
        rc, out, err = build.yardl(["validate"], cwd=os.path.join(root, "m"))
        shutil.rmtree(root, ignore_errors=True)
        if rc not in (0, 1) or "panic:" in err or "goroutine " in err:
            return "crash", err[-400:]
        msgs = sorted(set(re.sub(r"^.*?\.ya?ml:\d+:\d+: ", "", l.strip()) for l in err.splitlines() if re.search(r"\.ya?ml:\d+:\d+: ", l)))
        return ("accepted" if rc == 0 else "rejected"), msgs
    with ThreadPoolExecutor(build.NCPU) as ex:
        results = list(ex.map(run, enumerate(jobs)))
    by = {}
    for (name, label, files), (verdict, detail) in zip(jobs, results):
        chk.count()
        chk.nontriv(hash((name, label)))
        chk.outcome(("verdict", name, verdict))
        by.setdefault(name, []).append((label, verdict, detail, files))
    for name, lst in by.items():
        for label, verdict, detail, files in lst:
            if verdict == "crash":
                chk.fail("verdict/crash/%s" % name, "yardl validate crashes on arrangement %s of family %s: %s" % (label, name, detail), {"family": name, "arrangement": label, "model_files": files})
        verdicts = sorted(set(v for _, v, _, _ in lst if v != "crash"))
        if len(verdicts) > 1:
            acc = next(x for x in lst if x[1] == "accepted")
            rej = next(x for x in lst if x[1] == "rejected")
            chk.fail("verdict/depends-on-arrangement/%s" % name,
                     "family %s: the same definitions are accepted as %s but rejected as %s (%s); %d arrangements accepted, %d rejected" % (
                         name, acc[0], rej[0], "; ".join(rej[2][:2])[:300], sum(1 for x in lst if x[1] == "accepted"), sum(1 for x in lst if x[1] == "rejected")),
                     {"family": name, "accepted_arrangement": acc[0], "accepted_files": acc[3], "rejected_arrangement": rej[0], "rejected_files": rej[3], "messages": rej[2]})
    chk.sample({"verdict_families": list(fams), "arrangements": len(jobs)})


def literal_pairs():
    """(name, reference model text, respelled model text): the two texts differ in the spelling of one literal or scalar only."""
    rec = lambda body: "R: !record\n  fields:\n%s" % body + "P: !protocol\n  sequence:\n    r: R\n"
    comp = lambda e: "R: !record\n  fields:\n    a: int\n  computedFields:\n    n: %s\nP: !protocol\n  sequence:\n    r: R\n" % e
    return [
        ("array-length-hex-shorthand", rec("    a: int[16]\n"), rec("    a: int[0x10]\n")),
        ("array-length-hex-expanded", rec("    a: !array {items: int, dimensions: [16]}\n"), rec("    a: !array {items: int, dimensions: [0x10]}\n")),
        ("array-length-octal-expanded", rec("    a: !array {items: int, dimensions: [8]}\n"), rec("    a: !array {items: int, dimensions: [0o10]}\n")),
        ("vector-length-hex-shorthand", rec("    a: int*16\n"), rec("    a: int*0x10\n")),
        ("vector-length-hex-expanded", rec("    a: !vector {items: int, length: 16}\n"), rec("    a: !vector {items: int, length: 0x10}\n")),
        ("vector-length-underscore", rec("    a: !vector {items: int, length: 1000}\n"), rec("    a: !vector {items: int, length: 1_000}\n")),
        ("named-dimension-length-hex", rec("    a: !array {items: int, dimensions: {x: 16, y: 2}}\n"), rec("    a: !array {items: int, dimensions: {x: 0x10, y: 2}}\n")),
        ("expression-literal-block-scalar", comp("a + 1"), comp("|\n      a + 1")),
        ("expression-folded-block-scalar", comp("a + 1"), comp(">\n      a + 1")),
        ("expression-quoted", comp("a + 1"), comp('"a + 1"')),
        ("expression-hex-literal", comp("a + 16"), comp("a + 0x10")),
        ("array-length-hex-shorthand-vs-expanded", rec("    a: !array {items: int, dimensions: [0x10]}\n"), rec("    a: int[0x10]\n")),
        ("vector-length-hex-shorthand-vs-expanded", rec("    a: !vector {items: int, length: 0x10}\n"), rec("    a: int*0x10\n")),
        # lengths at and beyond the 64-bit boundary: shorthand and expanded spelling must get the same verdict
        ("vector-length-2^64-1", rec("    a: int*18446744073709551615\n"), rec("    a: !vector {items: int, length: 18446744073709551615}\n")),
        ("vector-length-2^64", rec("    a: int*18446744073709551616\n"), rec("    a: !vector {items: int, length: 18446744073709551616}\n")),
        ("vector-length-2^64+1", rec("    a: int*18446744073709551617\n"), rec("    a: !vector {items: int, length: 18446744073709551617}\n")),
        ("vector-length-2^64+1-hex", rec("    a: int*0x10000000000000001\n"), rec("    a: !vector {items: int, length: 0x10000000000000001}\n")),
        ("array-length-2^64+1", rec("    a: int[18446744073709551617]\n"), rec("    a: !array {items: int, dimensions: [18446744073709551617]}\n")),
        ("array-length-2^64+1-named", rec("    a: int[x:18446744073709551617]\n"), rec("    a: !array {items: int, dimensions: {x: 18446744073709551617}}\n")),
        # literals with a leading zero: whatever they mean, they mean it in both spellings
        ("array-length-leading-zero", rec("    a: int[017]\n"), rec("    a: !array {items: int, dimensions: [017]}\n")),
        ("vector-length-leading-zero", rec("    a: int*017\n"), rec("    a: !vector {items: int, length: 017}\n")),
        ("array-length-leading-zero-named", rec("    a: int[x:017, y:010]\n"), rec("    a: !array {items: int, dimensions: {x: 017, y: 010}}\n")),
        ("array-length-binary", rec("    a: int[0b101]\n"), rec("    a: !array {items: int, dimensions: [0b101]}\n")),
        ("vector-length-octal", rec("    a: int*0o17\n"), rec("    a: !vector {items: int, length: 0o17}\n")),
        ("enum-values-list-vs-map", "E: !enum\n  values: [a, b]\n" + rec("    a: E\n"), "E: !enum\n  values: {a: 0, b: 1}\n" + rec("    a: E\n")),
        ("enum-values-bool-like-symbols", "E: !enum\n  values: [false, true]\n" + rec("    a: E\n"), "E: !enum\n  values: {false: 0, true: 1}\n" + rec("    a: E\n")),
        ("enum-values-null-like-symbols", "E: !enum\n  values: [yes, no]\n" + rec("    a: E\n"), "E: !enum\n  values: {yes: 0, no: 1}\n" + rec("    a: E\n")),
        ("vector-length-negative", rec("    a: int*-1\n"), rec("    a: !vector {items: int, length: -1}\n")),
        ("type-in-single-quotes", rec("    a: int?\n"), rec("    a: 'int?'\n")),
        ("type-as-block-scalar", rec("    a: int?\n"), rec("    a: |-\n      int?\n")),
        ("enum-value-hex", "E: !enum\n  values:\n    a: 16\n" + rec("    a: E\n"), "E: !enum\n  values:\n    a: 0x10\n" + rec("    a: E\n")),
        ("enum-base-alias", "E: !enum\n  base: uint64\n  values: [a]\n" + rec("    a: E\n"), "E: !enum\n  base: ulong\n  values: [a]\n" + rec("    a: E\n")),
    ]


def literal_part(chk, quick):
    pairs = literal_pairs()
    base = os.path.join(build.scratch(), "c13l")

    def run(ij):
        i, (name, which, text) = ij
        root = os.path.join(base, "l%d" % i)
        build.write_tree(root, {"m/_package.yml": "namespace: Lt\ncpp:\n  sourcesOutputDir: ../out/cpp\n  generateCMakeLists: false\npython:\n  outputDir: ../out/py\nmatlab:\n  outputDir: ../out/matlab\n",
                                "m/model.yml": text})
        rc, out, err = build.yardl(["generate"], cwd=os.path.join(root, "m"))
        h = tree_hash(os.path.join(root, "out")) if rc == 0 else {}
        shutil.rmtree(root, ignore_errors=True)
        return rc, err, h
    jobs = [(n, w, t) for n, a, b in pairs for w, t in (("reference", a), ("respelled", b))]
    with ThreadPoolExecutor(build.NCPU) as ex:
        res = list(ex.map(run, enumerate(jobs)))
    for k, (name, a, b) in enumerate(pairs):
        (rc0, err0, h0), (rc1, err1, h1) = res[2 * k], res[2 * k + 1]
        chk.count()
        chk.nontriv(hash(("literal", name)))
        chk.outcome(("literal", rc0, rc1))
        where = {"pair": name, "reference_model": a, "respelled_model": b, "reference_stderr": err0[-500:], "respelled_stderr": err1[-500:]}
        if rc0 not in (0, 1) or rc1 not in (0, 1) or "panic:" in err0 + err1:
            chk.fail("literal/crash/%s" % name, "yardl crashes on one spelling of pair %s: %s" % (name, (err0 + err1)[-300:]), where)
        elif rc0 != rc1:
            chk.fail("literal/verdict-differs/%s" % name, "pair %s: the reference spelling is %s, the respelled model is %s: %s" % (
                name, "accepted" if rc0 == 0 else "rejected", "accepted" if rc1 == 0 else "rejected", (err1 if rc1 else err0).strip()[-300:]), where)
        elif rc0 == 0 and h0 != h1:
            diff = sorted(f for f in set(h0) | set(h1) if h0.get(f) != h1.get(f))
            chk.fail("literal/generated-code-differs/%s" % name, "pair %s: both spellings are accepted but the generated files differ: %s" % (name, diff[:5]), dict(where, changed_files=diff[:20]))
    chk.sample({"literal_pairs": [n for n, _, _ in pairs]})


def respelled_version_part(chk, pkgs, quick):
    """A previous version that differs from the current model only in spelling is the same model: listing it under `versions:` must
    be accepted without any compatibility error or warning (old = base spelling, new = every site in its k-th alternative spelling,
    and the other way round)."""
    jobs = []
    for pi, pkg in enumerate(pkgs):
        st = sites(pkg)
        alts = {(d, m): spellings(t)[1:] for d, m, t in st if not (isinstance(t, tuple) and t and t[0] == "enumvalues")}
        base_text = model_text(pkg)[0]
        for k in range(4):
            ch = {s_: al[min(k, len(al) - 1)] for s_, al in alts.items() if al}
            alt_text = model_text(pkg, ch)[0]
            jobs.append((pi, "old-shorthand/new-alternative-%d" % k, base_text, alt_text))
            jobs.append((pi, "old-alternative-%d/new-shorthand" % k, alt_text, base_text))
    base = os.path.join(build.scratch(), "c13r")

    def run(ij):
        i, (pi, label, old, new) = ij
        pkg = pkgs[pi]
        root = os.path.join(base, "r%d" % i)
        fs = am.package_files(pkg, targets=())
        man = fs["%s/_package.yml" % pkg.dirname]
        fs["old_%s/_package.yml" % pkg.dirname] = man
        fs["old_%s/model.yml" % pkg.dirname] = old
        fs["%s/_package.yml" % pkg.dirname] = man + "versions:\n  v0: ../old_%s\n" % pkg.dirname
        fs["%s/model.yml" % pkg.dirname] = new
        build.write_tree(root, fs)
        rc, out, err = build.yardl(["validate"], cwd=os.path.join(root, pkg.dirname))
        shutil.rmtree(root, ignore_errors=True)
        return rc, err
    with ThreadPoolExecutor(build.NCPU) as ex:
        results = list(ex.map(run, enumerate(jobs)))
    for (pi, label, old, new), (rc, err) in zip(jobs, results):
        chk.count()
        chk.nontriv(hash((pi, label)))
        chk.outcome(("respelled-version", rc))
        msgs = [l.strip() for l in err.splitlines() if "[v0]" in l or "WRN" in l or "ERR" in l]
        if rc != 0 or msgs:
            chk.fail("respelled-version/%s" % ("rejected" if rc != 0 else "warning"),
                     "package %s, %s: a previous version that only differs in spelling is %s: %s" % (pkgs[pi].namespace, label, "rejected" if rc != 0 else "reported as changed", " | ".join(msgs)[:400]),
                     {"package": pkgs[pi].namespace, "rewrite": label, "old_model": old[:6000], "new_model": new[:6000], "stderr": err[-1500:]})


def main(tier):
    quick = tier == "quick"
    chk = Check("C13", "exploration", tier,
                "base packages (a packed shape package covering all constructors, and a protocol-centred package with imports and generics) x "
                "rewrites: for every type occurrence (record field, alias, protocol step) each alternative spelling (expanded top level, fully "
                "expanded, fully expanded with primitive aliases, shorthand with aliases, [null, T]) alone (deviation 1; thorough: all pairs of "
                "sites over a stride) and all sites at once; non-documentation comments, blank lines, quoting; every rotation / reversal / adjacent "
                "swap of the definition order and 2-3 file splits; plus small valid and invalid families (generic instantiations of which one is "
                "illegal, cycles, unknown types) in every permutation of their definitions, as one file, as one file per definition and as every "
                "two-file split: the verdict must be the same for all arrangements; non-trivial = distinct rewritten model texts")
    build.yardl_bin()
    slot_counter = itertools.count()
    jobs = []        # (kind, label, pkg index, model files)
    pkgs = base_packages(tier)
    bases = []
    for pi, pkg in enumerate(pkgs):
        text, chunks = model_text(pkg)
        rc, err, h, outdir = generate(next(slot_counter), pkg, {"model.yml": text})
        if rc != 0:
            raise build.HarnessError("base package %s rejected: %s" % (pkg.namespace, err[-400:]))
        bases.append((text, chunks, h, schemas_of(outdir), outdir))
        st = sites(pkg)
        alts = {(d, m): spellings(t)[1:] for d, m, t in st}
        # deviation 1
        for (d, m), al in alts.items():
            for a in al:
                jobs.append(("syntax", "%s.%s := %s" % (d, m, a[:60]), pi, {"model.yml": model_text(pkg, {(d, m): a})[0]}))
        # every site with its k-th alternative at once
        for k in range(4):
            ch = {s: al[min(k, len(al) - 1)] for s, al in alts.items() if al}
            jobs.append(("syntax", "all-sites-alternative-%d" % k, pi, {"model.yml": model_text(pkg, ch)[0]}))
        if not quick:
            keys = [s for s in alts if alts[s]][::5]
            for a, b in itertools.combinations(keys, 2):
                jobs.append(("syntax", "two-sites", pi, {"model.yml": model_text(pkg, {a: alts[a][0], b: alts[b][-1]})[0]}))
        # comments, blank lines, quoting
        lines = text.split("\n")
        jobs.append(("syntax", "trailing-comments", pi, {"model.yml": "\n".join(l + "  # note" if l.strip() and not l.rstrip().endswith(":") else l for l in lines)}))
        jobs.append(("syntax", "blank-lines", pi, {"model.yml": "\n\n".join(lines)}))
        jobs.append(("syntax", "detached-comments", pi, {"model.yml": "# a file header comment\n\n" + "\n".join(("# detached remark\n\n" + l) if re.match(r"^\w", l) else l for l in lines)}))
        jobs.append(("syntax", "document-markers", pi, {"model.yml": "---\n" + text}))
        jobs.append(("syntax", "windows-line-endings", pi, {"model.yml": text.replace("\n", "\r\n")}))
        jobs.append(("syntax", "quoted-scalars", pi, {"model.yml": re.sub(r": (int32|string|float32|bool)$", r': "\1"', text, flags=re.M)}))
        # definition order and file layout
        names = [d.name for d in list(pkg.defs) + list(pkg.protocols)]
        orders = [list(reversed(names))] + [names[i:] + names[:i] for i in range(1, len(names), max(1, len(names) // (6 if quick else 20)))]
        for i in range(0, len(names) - 1, max(1, len(names) // (8 if quick else 40))):
            o = list(names)
            o[i], o[i + 1] = o[i + 1], o[i]
            orders.append(o)
        for o in orders:
            jobs.append(("order", "definition-order", pi, {"model.yml": model_text(pkg, order=o)[0]}))
        half = len(names) // 2
        jobs.append(("order", "two-files", pi, {"b_second.yml": model_text(pkg, order=names[:half])[0], "a_first.yml": model_text(pkg, order=names[half:])[0]}))
        jobs.append(("order", "three-files-with-subdir", pi, {"z.yml": model_text(pkg, order=names[::3])[0], "m.yaml": model_text(pkg, order=names[1::3])[0],
                                                            "sub/a.yml": model_text(pkg, order=names[2::3])[0]}))
        jobs.append(("order", "one-file-per-definition", pi, {"d%03d.yml" % i: chunks[n] for i, n in enumerate(reversed(names))}))
        # one file, several YAML documents (`---` between definitions): the same definitions, differently distributed
        jobs.append(("order", "one-document-per-definition", pi, {"model.yml": "\n---\n".join(chunks[n] for n in names) + "\n"}))
        jobs.append(("order", "two-documents", pi, {"model.yml": "---\n" + model_text(pkg, order=names[:half])[0] + "\n---\n" + model_text(pkg, order=names[half:])[0] + "\n"}))
        jobs.append(("order", "documents-and-files", pi, {"a.yml": "\n---\n".join(chunks[n] for n in names[:half]) + "\n...\n", "b.yml": "# leading comment\n---\n" + "\n---\n".join(chunks[n] for n in names[half:]) + "\n"}))

    def run(job):
        kind, label, pi, mf = job
        rc, err, h, outdir = generate(1000 + jobs_index[id(job)], pkgs[pi], mf)
        sch = schemas_of(outdir) if rc == 0 else {}
        imp = None
        if rc == 0 and kind == "order":
            # the generated Python package of a re-ordered model must still import
            p = build.run([build.PY, "-c", "import sys; sys.path.insert(0, %r); import %s" % (os.path.join(outdir, "py"), pkgs[pi].namespace.lower())], timeout=120)
            imp = None if p.returncode == 0 else p.stderr.decode(errors="replace")[-400:]
        shutil.rmtree(os.path.dirname(outdir), ignore_errors=True)
        return job, rc, err, h, sch, imp

    jobs_index = {id(j): i for i, j in enumerate(jobs)}
    with ThreadPoolExecutor(build.NCPU) as ex:
        results = list(ex.map(run, jobs))
    for (kind, label, pi, mf), rc, err, h, sch, imp in results:
        chk.count()
        chk.nontriv(hash(json.dumps(mf, sort_keys=True)))
        chk.outcome((kind, rc))
        text, chunks, h0, sch0, outdir0 = bases[pi]
        where = {"package": pkgs[pi].namespace, "rewrite": label, "model_files": {k: v[:6000] for k, v in mf.items()}}
        if rc != 0:
            chk.fail("rejected/%s/%s" % (kind, label.split(" := ")[0] if kind != "syntax" else "alternative-spelling"),
                     "the base model is accepted but its rewrite '%s' is rejected: %s" % (label, err[-300:]), where)
            continue
        if kind == "syntax":
            if h != h0:
                diff = sorted(f for f in set(h) | set(h0) if h.get(f) != h0.get(f))
                fam = label.split(" := ")[1].split(" ")[0].split("{")[0] if " := " in label else label
                chk.fail("generated-code-differs/%s" % re.sub(r"[^A-Za-z!\[\]-]", "", fam)[:24],
                         "pure syntax alternative '%s' changes generated files %s" % (label, diff[:5]), dict(where, changed_files=diff[:20]))
        else:
            if imp is not None:
                chk.fail("generated-python-broken-after-reordering/%s%s" % ("" if pi < 2 else pkgs[pi].namespace + "/", label), "the generated Python package of the re-ordered model (%s) does not import: %s" % (label, imp[-300:]), where)
            if sch != sch0:
                diff = sorted(p for p in set(sch) | set(sch0) if sch.get(p) != sch0.get(p))
                chk.fail("schema-differs/%s" % label, "re-ordering / re-splitting (%s) changes the schema of protocols %s" % (label, diff[:5]), dict(where, protocols=diff))
            gen_only = {k: v for k, v in h.items() if not k.endswith("model.json")}
            base_only = {k: v for k, v in h0.items() if not k.endswith("model.json")}
            if set(gen_only) != set(base_only):
                chk.fail("generated-file-set-differs/%s" % label, "re-ordering changes the set of generated files", where)
    # wire behaviour after re-ordering: run the generated Python of the reversed-order model against the base model's reference stream
    pkg = pkgs[1]
    names = [d.name for d in list(pkg.defs) + list(pkg.protocols)]
    for label, mf in (("reversed", {"model.yml": model_text(pkg, order=list(reversed(names)))[0]}),
                      ("one-file-per-definition", {"d%03d.yml" % i: bases[1][1][n] for i, n in enumerate(reversed(names))})):
        rc, err, h, outdir = generate(next(slot_counter), pkg, mf)
        if rc != 0:
            continue
        pr0 = cppdrv.Driver(build.PY, args=[os.path.join(build.VERIF, "lib", "pydrv_main.py"), os.path.join(bases[1][4], "py"), pkg.namespace.lower()])
        pr1 = cppdrv.Driver(build.PY, args=[os.path.join(build.VERIF, "lib", "pydrv_main.py"), os.path.join(outdir, "py"), pkg.namespace.lower()])
        for pr in pkg.protocols:
            steps = [(sn, am.resolve(pkg, st)) for sn, st in pr.steps]
            vals = c15.default_values(steps)
            data = refcodec.encode_protocol(steps, vals, bases[1][3][pr.name], None)
            for mode in ("b2b", "b2n"):
                a = pr0.call(pr.name, mode, data, 1)
                b = pr1.call(pr.name, mode, data, 1)
                chk.count()
                if a != b or a[0] != "OK":
                    chk.fail("wire-behaviour-differs/%s" % label, "generated Python of the re-ordered model (%s) behaves differently on the same stream: %s vs %s" % (label, a[0], b[0]),
                             {"protocol": pr.name, "mode": mode, "base": [a[0], a[2][:200]], "rewritten": [b[0], b[2][:200]]})
        pr0.close()
        pr1.close()
    verdict_part(chk, quick)
    respelled_version_part(chk, pkgs, quick)
    literal_part(chk, quick)
    chk.sample({"rewrites": len(jobs), "sites": sum(len(sites(p)) for p in pkgs), "examples": [j[1] for j in jobs[:5]]})
    chk.assumptions += ["documentation comments (attached to an element) legitimately change generated docstrings and are not rewritten here",
                        "model.json is compared for pure syntax alternatives only (it records definition order)"]
    return chk.finish()

"""C06 Schema-evolution verdicts are total, reflexive and match the documented classes.

Pairs (old, new) with new = edit(old) for every documented edit class at every position of a base model, reflexive pairs,
meaning-preserving rewrites and unrelated pairs, executed on the real LoadPackage + validatePackage (which runs
dsl.ValidateEvolution) in-process, twice per pair; compared with a reference classifier written from docs/cpp/evolution.md."""
import copy, itertools, json, os, shutil
from build import Pool

import am, build, shapes
from am import P, N, TP, Opt, Union, Vec, Arr, Map, Stream, Record, Enum, Alias, Protocol, Package
from evidence import Check


def imported():
    return Package("Lib", defs=[Record("Meta", [("k", P("string")), ("v", P("int64")), ("extra", Opt(P("float32")))]),
                                Alias("Tensor", Arr(TP("T"), None), tparams=("T",))], dirname="lib")


def base_model(variant=0):
    lib = imported()
    defs = [
        Record("Header", [("id", P("int32")), ("name", P("string")), ("note", Opt(P("string"))), ("tags", Vec(P("string"))),
                          ("kind", N("Kind"))]),
        Record("Sample", [("t", P("float64")), ("values", Vec(P("float32"))), ("h", N("Header")), ("meta", N("Lib.Meta")),
                          ("maybe", Opt(P("int32")))]),
        Record("Pair", [("a", TP("A")), ("b", TP("B"))], tparams=("A", "B")),
        Alias("Img", Arr(TP("T"), 2), tparams=("T",)),
        Alias("ImgF", N("Img", P("float32"))),
        Enum("Kind", [("x", 0), ("y", 1), ("z", 5)]),
        Enum("Mode", [("r", 1), ("w", 2)], base="uint8", flags=True),
        Alias("Item", Union(N("Sample"), N("ImgF"))),
        Alias("HAlias", N("Header")),
        Alias("Count", P("uint32")),
        Record("Wrapper", [("inner", N("Pair", N("Header"), P("int32"))), ("list", Vec(N("Sample"))), ("opt", Opt(N("Header")))]),
    ]
    steps = [("header", N("Header")), ("count", P("int32")), ("samples", Stream(N("Sample"))), ("pair", N("Pair", P("int32"), P("string"))),
             ("items", Stream(N("Item"))), ("kind", N("Kind")), ("mode", N("Mode")), ("opt", Opt(P("float32"))), ("img", N("Img", P("float32"))),
             ("vec", Vec(P("int32"))), ("m", Map(P("string"), P("int32"))), ("wrap", N("Wrapper")), ("un", Union(P("int32"), P("string"))),
             ("tensor", N("Lib.Tensor", P("float64"))), ("n", N("Count"))]
    protos = [Protocol("Proto", steps), Protocol("Proto2", [("a", N("Header")), ("b", Stream(P("int32")))])]
    if variant == 1:
        protos = [Protocol("Proto", steps[:6])]
    if variant == 2:
        # a generic used with several type arguments whose definitions are reachable only through it
        defs += [Record("Box", [("v", TP("T"))], tparams=("T",)), Record("Leaf", [("q", P("int32")), ("o", Opt(P("string")))]),
                 Enum("Shade", [("dark", 0), ("light", 1)]), Record("Leaf2", [("w", P("float64"))])]
        protos[0].steps += [("bx1", N("Box", N("Leaf"))), ("bx2", N("Box", N("Shade"))), ("bx3", Stream(N("Box", N("Leaf2"))))]
    return Package("Evo", defs=defs, protocols=protos, imports=[lib])


def find(pkg, name):
    for d in pkg.defs + pkg.protocols:
        if d.name == name:
            return d
    raise KeyError(name)


# ---------------------------------------------------------------- edit operators: yield (label, class, new package)
def edits(old):
    def clone():
        return copy.deepcopy(old)

    recs = [d.name for d in old.defs if d.kind == "record" and not d.tparams]
    # ---- record fields
    for rn in recs:
        r0 = find(old, rn)
        nf = len(r0.fields)
        for pos in sorted({0, nf // 2, nf}):
            p = clone(); find(p, rn).fields.insert(pos, ("addedOpt", Opt(P("int32"))))
            yield ("add-optional-field/%s@%d" % (rn, pos), "compatible", p)
            p = clone(); find(p, rn).fields.insert(pos, ("addedReq", P("int32")))
            yield ("add-required-field/%s@%d" % (rn, pos), "partial", p)
            p = clone(); find(p, rn).fields.insert(pos, ("addedVec", Vec(P("string"))))
            yield ("add-required-vector-field/%s@%d" % (rn, pos), "partial", p)
        for i, (fn, ft) in enumerate(r0.fields):
            p = clone(); del find(p, rn).fields[i]
            if len(find(p, rn).fields) > 0:
                yield ("remove-field/%s.%s" % (rn, fn), "compatible" if ft[0] == "opt" else "partial", p)
            if ft[0] not in ("opt",) and not (ft[0] == "union" and ft[1][0][1] is None):
                p = clone(); find(p, rn).fields[i] = (fn, Opt(ft))
                yield ("make-field-optional-%s/%s.%s" % ({"prim": "scalar", "named": "named", "vec": "vector", "arr": "array", "map": "map", "union": "union"}[ft[0]], rn, fn), "partial", p)
            if ft[0] == "opt":
                p = clone(); find(p, rn).fields[i] = (fn, Union(None, ft[1], P("bool")))
                yield ("optional-to-union/%s.%s" % (rn, fn), "partial", p)
            if ft[0] == "prim":
                for nt in prim_changes(ft[1]):
                    p = clone(); find(p, rn).fields[i] = (fn, P(nt))
                    yield ("change-primitive/%s.%s:%s->%s" % (rn, fn, ft[1], nt), "partial", p)
                p = clone(); find(p, rn).fields[i] = (fn, Vec(ft))
                yield ("scalar-to-vector/%s.%s" % (rn, fn), "incompatible", p)
                p = clone(); find(p, rn).fields[i] = (fn, Arr(ft, None))
                yield ("scalar-to-array/%s.%s" % (rn, fn), "incompatible", p)
        if nf >= 2:
            p = clone(); f = find(p, rn).fields; f[0], f[-1] = f[-1], f[0]
            yield ("reorder-fields-swap/%s" % rn, "compatible", p)
            p = clone(); f = find(p, rn).fields; f.append(f.pop(0))
            yield ("reorder-fields-rotate/%s" % rn, "compatible", p)
            p = clone(); find(p, rn).fields.reverse()
            yield ("reorder-fields-reverse/%s" % rn, "compatible", p)
    # ---- aliases
    p = clone(); p.defs.append(Alias("NewAlias", N("Header")))
    yield ("add-alias/unused", "compatible", p)
    p = clone(); p.defs.append(Alias("NewAlias", N("Sample"))); find(p, "Proto").steps = [(n, N("NewAlias") if t == Stream(N("Sample")) and False else t) for n, t in find(p, "Proto").steps]
    yield ("add-alias/of-stream-item", "compatible", p)
    p = clone(); p.defs = [d for d in p.defs if d.name != "HAlias"]
    yield ("remove-alias/unused", "compatible", p)
    p = clone(); p.defs = [d for d in p.defs if d.name != "Count"]; find(p, "Proto").steps = [(n, P("uint32") if t == N("Count") else t) for n, t in find(p, "Proto").steps]
    yield ("remove-alias/used-by-step", "compatible", p)
    p = clone(); p.defs.append(Alias("Hdr2", N("Header"))); find(p, "Sample").fields = [(n, N("Hdr2") if t == N("Header") else t) for n, t in find(p, "Sample").fields]
    yield ("add-alias/used-by-field", "compatible", p)
    # ---- meaning-preserving rewrites
    p = clone(); p.defs.reverse()
    yield ("reorder-definitions/reverse", "silent", p)
    p = clone(); p.defs.append(p.defs.pop(0)); p.protocols.reverse()
    yield ("reorder-definitions/rotate", "silent", p)
    p = clone(); p.defs.append(Record("Unused", [("u", P("int32"))])); p.defs.append(Enum("UnusedE", [("a", 0)]))
    yield ("add-unused-types", "silent", p)
    p = clone(); p.protocols.append(Protocol("BrandNew", [("a", P("int32"))]))
    yield ("add-unrelated-protocol", "silent", p)
    for d in old.defs:
        p = clone(); find(p, d.name).comment = "a new comment"
        yield ("add-comment/%s" % d.name, "silent", p)
    for rn in ["Header", "Sample", "Wrapper", "Kind", "Mode", "Pair", "Item", "ImgF"]:
        p = clone()
        d = find(p, rn)
        d.name = rn + "Renamed"
        if d.tparams:
            p.defs.append(Alias(rn, N(rn + "Renamed", *[TP(t) for t in d.tparams]), tparams=d.tparams))
        else:
            p.defs.append(Alias(rn, N(rn + "Renamed")))
        yield ("rename-through-alias/%s" % rn, "silent", p)
    # ---- protocol steps
    pr0 = find(old, "Proto")
    ns = len(pr0.steps)
    p = clone(); find(p, "Proto").steps.append(("addedStream", Stream(P("int32"))))
    yield ("add-step-end/stream", "compatible", p)
    p = clone(); find(p, "Proto").steps.append(("addedVec", Vec(N("Header"))))
    yield ("add-step-end/vector", "compatible", p)
    p = clone(); find(p, "Proto").steps.append(("addedOpt", Opt(N("Sample"))))
    yield ("add-step-end/optional", "compatible", p)
    for where, pos in (("front", 0), ("middle", ns // 2), ("second", 1), ("before-last", ns - 1)):
        for nm, st in (("stream", Stream(P("int32"))), ("vector", Vec(N("Header"))), ("optional", Opt(N("Sample"))), ("map", Map(P("string"), P("int32")))):
            p = clone(); find(p, "Proto").steps.insert(pos, ("addedStep", st))
            yield ("add-step-%s/%s" % (where, nm), "compatible" if nm != "map" else "unspecified", p)
    p = clone(); find(p, "Proto").steps.insert(0, ("addedFirst", Opt(P("int32")))); find(p, "Proto").steps.insert(ns // 2, ("addedMid", Vec(P("int32")))); find(p, "Proto").steps.append(("addedLast", Stream(P("int32"))))
    yield ("add-step-three-places/mixed", "compatible", p)
    # the same three kinds of added step, typed through (new) aliases: plain, alias of an alias, generic alias, imported generic alias
    for nm, adefs, st in [
            ("optional-alias", [Alias("AddedMaybeNote", Opt(P("string")))], N("AddedMaybeNote")),
            ("vector-alias", [Alias("AddedSamples", Vec(P("float32")))], N("AddedSamples")),
            ("alias-of-alias", [Alias("AddedInner", Opt(N("Header"))), Alias("AddedOuter", N("AddedInner"))], N("AddedOuter")),
            ("generic-alias", [Alias("AddedMaybe", Opt(TP("T")), tparams=("T",))], N("AddedMaybe", P("int32"))),
            ("generic-vector-alias", [Alias("AddedList", Vec(TP("T")), tparams=("T",))], N("AddedList", N("Header"))),
            ("stream-of-alias", [Alias("AddedItem", N("Header"))], Stream(N("AddedItem")))]:
        p = clone(); p.defs += adefs; find(p, "Proto").steps.append(("addedStep", st))
        yield ("add-step-end/%s" % nm, "compatible", p)
    for i in range(ns):
        p = clone(); del find(p, "Proto").steps[i]
        yield ("remove-step/%s" % pr0.steps[i][0], "incompatible", p)
    for i in range(ns - 1):
        p = clone(); s = find(p, "Proto").steps; s[i], s[i + 1] = s[i + 1], s[i]
        yield ("reorder-steps-swap/%d" % i, "incompatible", p)
    p = clone(); find(p, "Proto").steps.reverse()
    yield ("reorder-steps-reverse", "incompatible", p)
    for i, (sn, st) in enumerate(pr0.steps):
        inner = st[1] if st[0] == "stream" else st
        wrap = (lambda x: Stream(x)) if st[0] == "stream" else (lambda x: x)
        if inner[0] == "prim":
            for nt in prim_changes(inner[1]):
                p = clone(); find(p, "Proto").steps[i] = (sn, wrap(P(nt)))
                yield ("change-primitive-step/%s:%s->%s" % (sn, inner[1], nt), "partial", p)
            p = clone(); find(p, "Proto").steps[i] = (sn, wrap(Opt(inner)))
            yield ("make-step-optional/%s" % sn, "partial", p)
            p = clone(); find(p, "Proto").steps[i] = (sn, wrap(Vec(inner)))
            yield ("scalar-to-vector-step/%s" % sn, "incompatible", p)
            p = clone(); find(p, "Proto").steps[i] = (sn, wrap(Arr(inner, 2)))
            yield ("scalar-to-array-step/%s" % sn, "incompatible", p)
        if inner[0] == "opt":
            p = clone(); find(p, "Proto").steps[i] = (sn, wrap(Union(None, inner[1], P("string"))))
            yield ("optional-to-union-step/%s" % sn, "partial", p)
        if inner[0] == "union" and inner[1][0][1] is not None:
            p = clone(); find(p, "Proto").steps[i] = (sn, wrap(Union(*(list(c for _, c in inner[1]) + [P("bool")]))))
            yield ("add-union-type-step/%s" % sn, "partial", p)
            p = clone(); find(p, "Proto").steps[i] = (sn, wrap(Union(*([P("bool")] + list(c for _, c in inner[1])))))
            yield ("add-union-type-front-step/%s" % sn, "partial", p)
        if inner[0] == "named" and inner[2]:
            args = list(inner[2])
            for ai, a in enumerate(args):
                na = P("float64") if a != P("float64") else P("float32")
                p = clone(); find(p, "Proto").steps[i] = (sn, wrap(N(inner[1], *(args[:ai] + [na] + args[ai + 1:]))))
                yield ("change-generic-type-argument/%s#%d" % (sn, ai), "incompatible", p)
    # ---- the same step edits hidden behind a newly introduced closed alias, and with an existing alias inlined
    step_edits = []
    for i, (sn, st) in enumerate(pr0.steps):
        inner = st[1] if st[0] == "stream" else st
        wrap = (lambda x: Stream(x)) if st[0] == "stream" else (lambda x: x)
        cands = []
        if inner[0] == "prim":
            cands += [("change-primitive-step", "partial", P(prim_changes(inner[1])[0]))] if prim_changes(inner[1]) else []
            cands += [("scalar-to-vector-step", "incompatible", Vec(inner)), ("make-step-optional", "partial", Opt(inner))]
        if inner[0] == "named" and inner[2]:
            args = list(inner[2])
            na = P("float64") if args[0] != P("float64") else P("float32")
            cands.append(("change-generic-type-argument", "incompatible", N(inner[1], *([na] + args[1:]))))
        if inner[0] == "named" and not inner[2]:
            cands.append(("unchanged", "silent", inner))
        for kind, cls, newinner in cands:
            p = clone(); p.defs.append(Alias("StepAlias", newinner)); find(p, "Proto").steps[i] = (sn, wrap(N("StepAlias")))
            yield ("%s-behind-new-alias/%s" % (kind, sn), cls if kind != "unchanged" else "compatible", p)
            # reverse: the alias exists in the old version and the (changed) type is written inline in the new one
            o2 = clone(); o2.defs.append(Alias("StepAlias", inner)); find(o2, "Proto").steps[i] = (sn, wrap(N("StepAlias")))
            p = clone(); find(p, "Proto").steps[i] = (sn, wrap(newinner))
            yield ("%s-with-alias-inlined/%s" % (kind, sn), cls if kind != "unchanged" else "compatible", (o2, p))
    # ---- unions (named alias Item)
    p = clone(); find(p, "Item").type = Union(N("Sample"), N("ImgF"), N("Header"))
    yield ("add-union-type/Item-end", "partial", p)
    p = clone(); find(p, "Item").type = Union(N("Header"), N("Sample"), N("ImgF"))
    yield ("add-union-type/Item-front", "partial", p)
    p = clone(); find(p, "Item").type = Union(N("Sample"), N("ImgF"), N("Header"), P("int32"))
    yield ("add-two-union-types/Item", "partial", p)
    # removing a type from a union (documented as partially compatible), at the end / front / middle, for the alias and for a step
    for where, keep in (("end", (0, 1)), ("front", (1, 2)), ("middle", (0, 2)), ("two-from-end", (0,))):
        o3 = clone(); find(o3, "Item").type = Union(N("Sample"), N("ImgF"), N("Header"))
        cases = [N("Sample"), N("ImgF"), N("Header")]
        p = clone(); find(p, "Item").type = Union(*[cases[k] for k in keep]) if len(keep) > 1 else cases[keep[0]]
        yield ("remove-union-type/Item-%s" % where, "partial", (o3, p))
        ui = [k for k, (sn, _) in enumerate(pr0.steps) if sn == "un"][0]
        scases = [P("int32"), P("string"), P("bool")]
        o4 = clone(); find(o4, "Proto").steps[ui] = ("un", Union(*scases))
        p = clone(); find(p, "Proto").steps[ui] = ("un", Union(*[scases[k] for k in keep]) if len(keep) > 1 else scases[keep[0]])
        yield ("remove-union-type-step/un-%s" % where, "partial", (o4, p))
    # ---- enums / flags
    for en in ["Kind", "Mode"] + [d.name for d in old.defs if d.kind == "enum" and d.name not in ("Kind", "Mode")]:
        e0 = find(old, en)
        p = clone(); find(p, en).values.append(("added", 64))
        yield ("enum-add-value/%s" % en, "incompatible", p)
        p = clone(); del find(p, en).values[-1]
        yield ("enum-remove-value/%s" % en, "incompatible", p)
        p = clone(); v = find(p, en).values; v[0] = (v[0][0], 32)
        yield ("enum-change-value/%s" % en, "incompatible", p)
        p = clone(); v = find(p, en).values; v[0] = ("renamed", v[0][1])
        yield ("enum-rename-symbol/%s" % en, "incompatible", p)
        p = clone(); find(p, en).base = "int64" if e0.base != "int64" else "int16"
        yield ("enum-change-base/%s" % en, "incompatible", p)
        p = clone(); find(p, en).values.reverse()
        yield ("enum-reorder-values/%s" % en, "unspecified", p)
    # ---- generic parameters
    p = clone(); d = find(p, "Pair"); d.tparams = ("A", "B", "C"); d.fields.append(("c", TP("C")))
    for dd in p.defs + p.protocols:
        pass
    _retarget(p, "Pair", lambda t: N("Pair", *(list(t[2]) + [P("bool")])))
    yield ("change-generic-parameter-count/Pair+1", "incompatible", p)
    p = clone(); d = find(p, "Img"); d.tparams = ("T", "U"); d.type = Arr(Union(("t", TP("T")), ("u", TP("U"))), 2)
    _retarget(p, "Img", lambda t: N("Img", *(list(t[2]) + [P("bool")])))
    yield ("change-generic-parameter-count/Img+1", "incompatible", p)
    p = clone(); _retarget(p, "Img", lambda t: N("Img", P("float64")))
    yield ("change-generic-type-argument/all-Img", "incompatible", p)


def _retarget(pkg, name, fn):
    def rew(t):
        if t is None:
            return None
        k = t[0]
        if k == "named":
            t2 = ("named", t[1], tuple(rew(a) for a in t[2]))
            return fn(t2) if t[1] == name else t2
        if k in ("opt", "stream"):
            return (k, rew(t[1]))
        if k == "vec":
            return ("vec", rew(t[1]), t[2])
        if k == "arr":
            return ("arr", rew(t[1]), t[2])
        if k == "map":
            return ("map", rew(t[1]), rew(t[2]))
        if k == "union":
            return ("union", tuple((tag, rew(c)) for tag, c in t[1]))
        return t
    for d in pkg.defs:
        if d.kind == "record":
            d.fields = [(n, rew(t)) for n, t in d.fields]
        elif d.kind == "alias" and d.name != name:
            d.type = rew(d.type)
    for pr in pkg.protocols:
        pr.steps = [(n, rew(t)) for n, t in pr.steps]


def prim_changes(p):
    table = {"int32": ["int64", "int16", "uint32", "float32", "float64", "string", "uint8"], "string": ["int32", "float64", "uint64", "int8", "uint16"],
             "float64": ["float32", "int32", "string", "int64"], "float32": ["float64", "int16", "string"],
             "uint32": ["int32", "uint64", "float32", "string"], "int64": ["int32", "float64", "string"]}
    return table.get(p, ["int32"] if p not in ("bool", "date", "time", "datetime", "complexfloat32", "complexfloat64") else [])


# ---------------------------------------------------------------- elementary type changes in every context
def context_jobs(tier):
    """(label, class, old files, new files) for every elementary change of a type (documented partially compatible, documented
    incompatible, and a few the documentation does not classify) placed under every composition of <= 2 type constructors, as a
    step, a stream step, a record field, a generic argument and behind an alias. Oracle (differential, besides the documented
    class at the top level): a change that is an error on its own is an error in every context, a change that is reported on
    its own is never silent in a context."""
    kind_old, kind_new = Enum("Kind", [("x", 0), ("y", 1)]), Enum("Kind", [("x", 0), ("y", 7)])
    rec_old, rec_new = Record("R", [("a", P("int32"))]), Record("R", [("a", P("int32")), ("b", P("float32"))])
    img = Alias("Img", Arr(TP("T"), 2), tparams=("T",))
    deltas = [("int-to-long", P("int32"), P("int64"), "partial", [], []),
              ("float-to-string", P("float32"), P("string"), "partial", [], []),
              ("scalar-to-vector", P("int32"), Vec(P("int32")), "incompatible", [], []),
              ("scalar-to-array", P("float32"), Arr(P("float32"), None), "incompatible", [], []),
              ("generic-argument", N("Img", P("float32")), N("Img", P("float64")), "incompatible", [img], [img]),
              ("enum-value", N("Kind"), N("Kind"), "incompatible", [kind_old], [kind_new]),
              ("record-required-field", N("R"), N("R"), "partial", [rec_old], [rec_new]),
              ("int-to-datetime", P("int32"), P("datetime"), None, [], []),
              ("bool-to-int", P("bool"), P("int32"), None, [], []),
              ("string-to-date", P("string"), P("date"), None, [], []),
              ("vector-to-scalar", Vec(P("int32")), P("int32"), None, [], []),
              ("record-to-int", N("R"), P("int32"), None, [rec_old], [rec_old])]
    ctors = [("opt", lambda t: Opt(t)), ("vec", lambda t: Vec(t)), ("fvec", lambda t: Vec(t, 3)), ("arr", lambda t: Arr(t, 2)), ("dyn", lambda t: Arr(t, None)),
             ("map", lambda t: Map(P("string"), t)), ("union", lambda t: Union(("a", t), ("b", P("bool")))), ("nunion", lambda t: Union(None, ("a", t), ("b", P("bool"))))]
    ctxs = [("id", lambda t: t)] + ctors
    for n1, f1 in ctors:
        for n2, f2 in ctors:
            if (n1, n2) in (("opt", "opt"), ("opt", "nunion")) or (n1 in ("union", "nunion") and n2 in ("union", "nunion")):
                continue        # optional of optional / union directly inside a union are not types of the language
            ctxs.append((n1 + "-of-" + n2, lambda t, f1=f1, f2=f2: f1(f2(t))))
    places = ["step", "stream", "field", "generic-argument", "alias"]
    if tier == "quick":
        places = ["step", "stream", "field"]
    box = Record("Box", [("v", TP("T")), ("n", P("int32"))], tparams=("T",))
    for dn, told, tnew, cls, dold, dnew in deltas:
        for cn, cf in ctxs:
            for pl in places:
                pkgs = []
                for t, defs in ((told, dold), (tnew, dnew)):
                    ct = cf(t)
                    defs = [copy.deepcopy(d) for d in defs]
                    if pl == "step":
                        steps = [("s", ct)]
                    elif pl == "stream":
                        steps = [("s", Stream(ct))]
                    elif pl == "field":
                        defs.append(Record("Host", [("k", P("int32")), ("f", ct)])); steps = [("s", N("Host"))]
                    elif pl == "generic-argument":
                        defs.append(copy.deepcopy(box)); steps = [("s", N("Box", ct))]
                    else:
                        defs.append(Alias("Al", ct)); steps = [("s", Stream(N("Al")))]
                    pkgs.append(Package("Evo", defs=defs, protocols=[Protocol("Proto", [("first", P("int32"))] + steps)], dirname="evo"))
                yield ("ctx/%s/%s/%s" % (dn, pl, cn), cls, files_for(pkgs[0]), files_for(pkgs[1], pkgs[0]))


# ---------------------------------------------------------------- execution
_W = {}


def run_pair(job):
    label, cls, old_files, new_files = job[:4]
    extra = job[4] if len(job) > 4 else {}
    if _W.get("pid") != os.getpid():
        _W["pid"] = os.getpid()
        _W["dir"] = os.path.join(build.scratch(), "c06-w%d" % os.getpid())
        _W["h"] = build.HarnessProc("frontend", vlimit_kb=6000000)
    d, h = _W["dir"], _W["h"]
    shutil.rmtree(d, ignore_errors=True)
    build.write_tree(os.path.join(d, "old"), old_files)
    build.write_tree(os.path.join(d, "new"), new_files)
    for dn, fs in extra.items():
        build.write_tree(os.path.join(d, dn), fs)
    root = [k for k in new_files if k.endswith("_package.yml") and "namespace: Evo" in new_files[k] or k.startswith("evo/")]
    res1 = h.call({"dir": os.path.join(d, "new", "evo")}, timeout=60)
    res2 = h.call({"dir": os.path.join(d, "new", "evo")}, timeout=60)
    return label, cls, res1, res2


def files_for(pkg, old=None):
    """Files of a package; if old is given, the package lists it as previous version v0 at ../../old/evo."""
    fs = am.package_files(pkg, targets=())
    if old is not None:
        fs["evo/_package.yml"] += "versions:\n  v0: ../../old/evo\n"
    return fs


def norm(res):
    return (res.get("err"), tuple(res.get("warnings") or ()), res.get("panic"), res.get("died"), res.get("hang"))


UNREACHED = {}


def unreached_definitions(pkg):
    """Names of the package's own definitions that no protocol step reaches."""
    seen = set()

    def walk(t):
        if t is None:
            return
        k = t[0]
        if k == "named":
            name = t[1]
            for a in t[2]:
                walk(a)
            if "." in name or name in seen:
                return
            seen.add(name)
            d = find(pkg, name)
            if d.kind == "record":
                for _, ft in d.fields:
                    walk(ft)
            elif d.kind == "alias":
                walk(d.type)
        elif k in ("opt", "vec", "arr", "stream"):
            walk(t[1])
        elif k == "map":
            walk(t[1]); walk(t[2])
        elif k == "union":
            for _, c in t[1]:
                walk(c)
    for pr in pkg.protocols:
        for _, t in pr.steps:
            walk(t)
    return {d.name for d in pkg.defs} - seen


def main(tier):
    chk = Check("C06", "model_checking", tier,
                "pairs (old, new = edit(old)) for every documented edit class at every position of the base models (record fields of "
                "every non-generic record at start/middle/end, every step, union cases, enum/flags values, generic parameters and "
                "arguments, aliases, definition order, renames through aliases, comments), reflexive pairs for the base models and the "
                "packed shape packages, and all ordered pairs among unrelated small models; verdict (error / warnings / silent) "
                "compared with the reference classes of docs/cpp/evolution.md; every pair validated twice")
    build.yardl_bin(); build.harness_bin()
    jobs = []
    for variant in ((0,) if tier == "quick" else (0, 1)):
        old = base_model(variant)
        UNREACHED["v%d" % variant] = unreached_definitions(old)
        oldf = files_for(old)
        jobs.append(("reflexive/base%d" % variant, "silent", oldf, files_for(copy.deepcopy(old), old)))
        for label, cls, new in edits(old):
            if isinstance(new, tuple):       # (old', new') pair with its own old side
                jobs.append(("v%d/%s" % (variant, label), cls, files_for(new[0]), files_for(new[1], new[0])))
                continue
            jobs.append(("v%d/%s" % (variant, label), cls, oldf, files_for(new, old)))
            if tier != "quick" or cls in ("compatible", "silent"):
                # the reverse direction: new is the previous version of old (documented classes are symmetric for
                # add/remove pairs; only verdict *kind* classes that are symmetric are asserted)
                rcls = {"compatible": "compatible", "silent": "silent", "partial": "partial", "incompatible": "incompatible"}.get(cls, cls)
                if label.split("/")[0] in ("add-optional-field", "remove-field", "add-alias", "remove-alias", "reorder-fields-swap",
                                            "reorder-fields-rotate", "reorder-fields-reverse", "reorder-definitions", "add-comment",
                                            "rename-through-alias", "change-primitive", "change-primitive-step", "reorder-steps-swap",
                                            "reorder-steps-reverse", "enum-change-value", "enum-rename-symbol", "enum-change-base",
                                            "change-generic-type-argument"):
                    if label.startswith("remove-field") and cls == "partial":
                        pass
                    jobs.append(("v%d/reverse/%s" % (variant, label), rcls, files_for(new), files_for(copy.deepcopy(old), new)))
    # composed edits on the variant with several instantiations of one generic: a benign edit followed by a breaking one must still be
    # rejected, a benign one followed by a partially compatible one must still warn (one change never hides another)
    base2 = base_model(2)
    base2f = files_for(base2)
    UNREACHED["c2"] = unreached_definitions(base2)
    benign, seen_kinds = [], set()
    for l1, c1, p1 in edits(base2):
        k1 = l1.split("/")[0] + "/" + l1.split("/")[-1].split("@")[0].split(".")[0]
        if isinstance(p1, tuple) or c1 not in ("compatible", "partial") or k1 in seen_kinds:
            continue
        if tier == "quick" and l1.split("/")[-1].split("@")[0].split(".")[0] not in ("Leaf", "Header", "Leaf2"):
            continue
        seen_kinds.add(k1)
        benign.append((l1, c1, p1))
    for l1, c1, p1 in benign:
        seen2 = set()
        for l2, c2, p12 in edits(p1):
            k2 = l2.split("/")[0] + "/" + l2.split("/")[-1].split("@")[0].split(".")[0]
            if isinstance(p12, tuple) or c2 not in ("incompatible", "partial") or k2 in seen2:
                continue
            if c2 == "partial" and c1 == "partial":
                continue
            if "added" in l2 or "NewAlias" in l2 or "Hdr2" in l2:
                continue        # the second edit would change what the first one introduced: relative to the base that is one edit, not two
            if tier == "quick" and not (l2.split("/")[0].startswith("enum-") or l2.split("/")[0] in ("change-primitive", "scalar-to-vector", "remove-step")):
                continue
            seen2.add(k2)
            tag = "%s+%s" % (l1.replace("/", ":"), l2.replace("/", ":"))
            jobs.append(("c2/first/" + tag, "any", base2f, files_for(p1, base2)))
            jobs.append(("c2/second/" + tag, "any", files_for(p1), files_for(p12, p1)))
            jobs.append(("c2/compose/" + tag, "any", base2f, files_for(p12, base2)))
    # several listed versions: the verdict against one version does not depend on which other versions are listed, nor on their order
    ident = files_for(copy.deepcopy(base2))
    picked, seenk = [], set()
    for l1, c1, p1 in edits(base2):
        if isinstance(p1, tuple) or c1 not in ("incompatible", "partial") or l1.split("/")[0] in seenk:
            continue
        seenk.add(l1.split("/")[0])
        picked.append((l1, c1, p1))
    for l1, c1, p1 in (picked[:12] if tier == "quick" else picked):
        jobs.append(("c2/multi-version/alone/" + l1, "any", base2f, files_for(p1, base2)))
        cur = am.package_files(p1, targets=())
        same = am.package_files(copy.deepcopy(p1), targets=())
        for order in ("same-first", "same-last", "same-twice-around"):
            fs = dict(cur)
            vs = {"same-first": [("vs", "../../same/evo"), ("v0", "../../old/evo")], "same-last": [("v0", "../../old/evo"), ("vs", "../../same/evo")],
                  "same-twice-around": [("vs", "../../same/evo"), ("v0", "../../old/evo"), ("vt", "../../same/evo")]}[order]
            fs["evo/_package.yml"] += "versions:\n" + "".join("  %s: %s\n" % v for v in vs)
            jobs.append(("c2/multi-version/%s/%s" % (order, l1), "any", base2f, fs, {"same": same}))
    ctx_cls = {}
    for label, cls, oldf_, newf_ in context_jobs(tier):
        ctx_cls[label] = cls
        jobs.append((label, "any", oldf_, newf_))
    # reflexive pairs on packed shape packages (all constructors)
    sh = [s for s in shapes.shapes(1, tier) if not shapes.has_vector_of_bool(s)]
    for pkg, _ in shapes.pack(sh[:: (8 if tier == "quick" else 1)], "Evo", per_package=60, with_records=True):
        pkg.namespace, pkg.dirname = "Evo", "evo"
        jobs.append(("reflexive/shapes", "silent", files_for(pkg), files_for(copy.deepcopy(pkg), pkg)))
    # unrelated pairs (totality)
    smalls = unrelated_models()
    for (i, a), (j, b) in itertools.product(list(enumerate(smalls)), repeat=2):
        if i == j:      # every small model against an identical copy of itself: reflexivity on shapes the base models lack
            jobs.append(("reflexive/small-%s" % getattr(a, "verif_name", i), "silent", files_for(a), files_for(copy.deepcopy(b), a)))
            continue
        jobs.append(("unrelated/%d-%d" % (i, j), "any", files_for(a), files_for(copy.deepcopy(b), a)))
    with Pool(build.NCPU) as pool:
        results = pool.map(run_pair, jobs, chunksize=4)
    states, classes = set(), {}
    for label, cls, r1, r2 in results:
        chk.count()
        fam = label.split("/")[1] if label.startswith("v") else label.split("/")[0]
        if label.startswith("reflexive/small-"):
            fam = "reflexive/" + label[len("reflexive/small-"):]
        key_pos = label
        if r1.get("panic") or r1.get("died") is not None or r1.get("hang"):
            chk.outcome("crash")
            chk.fail("crash/" + (fam if not label.startswith("unrelated") else "unrelated"), "%s: evolution check crashed: %s" % (label, json.dumps(r1)[:400]), {"label": label, "result": r1})
            continue
        if norm(r1) != norm(r2):
            chk.fail("nondeterministic/" + fam, "%s: two validations of the same pair differ: %s vs %s" % (label, norm(r1), norm(r2)), {"label": label, "r1": r1, "r2": r2})
            continue
        err, warns = r1.get("err"), r1.get("warnings") or []
        verdict = "error" if err is not None else ("warning" if warns else "silent")
        chk.outcome(verdict)
        states.add((label, verdict))
        if cls != "silent" or not label.startswith("reflexive"):
            chk.nontriv(label)
        want = {"compatible": "silent", "silent": "silent", "partial": "warning", "incompatible": "error"}.get(cls)
        detail = (err or "; ".join(warns))[:300]
        # a definition no protocol reaches has no encoding to keep compatible: yardl reports nothing for it, and the documented
        # classes are about what streams contain, so "silent" is accepted for edits of such definitions
        edited = label.split("/")[-1].split("@")[0].split(".")[0].split(":")[0].split("-")[0].split("#")[0]
        if (label.startswith("v") or label.startswith("c2/")) and edited in UNREACHED.get(label.split("/")[0], ()) and verdict == "silent":
            want = None
        if want and verdict != want:
            chk.fail("%s/expected-%s-got-%s/%s" % (cls, want, verdict, fam), "%s: documented class %s => %s, yardl says %s: %s" % (label, cls, want, verdict, detail),
                     {"label": label, "class": cls, "result": r1})
        if chk.evaluations % 150 == 1:
            chk.sample({"pair": label, "documented_class": cls, "verdict": verdict, "detail": detail[:160]})
    # differential oracles on the composed / multi-version jobs (independent of the documented classes)
    verdicts = {label: v for label, v in states}
    rank = {"silent": 0, "warning": 1, "error": 2}
    for label, v in sorted(verdicts.items()):
        if label.startswith("c2/compose/"):
            tag = label[len("c2/compose/"):]
            v1, v2 = verdicts.get("c2/first/" + tag), verdicts.get("c2/second/" + tag)
            if v1 is None or v2 is None:
                continue
            need = max(rank[v1], rank[v2])
            if rank[v] < need:
                k2 = tag.split("+")[1].split(":")[0]
                chk.fail("compose/change-hidden-by-another/%s" % k2, "%s: the first edit alone gives '%s', the second alone '%s', both together only '%s': one change hides the other" % (
                    label, v1, v2, v), {"label": label, "first": v1, "second": v2, "together": v})
        elif label.startswith("c2/multi-version/") and "/alone/" not in label:
            order, l1 = label[len("c2/multi-version/"):].split("/", 1)
            va = verdicts.get("c2/multi-version/alone/" + l1)
            if va is not None and va != v:
                chk.fail("multi-version/verdict-depends-on-other-versions/%s" % order, "%s: against this previous version alone yardl says '%s', with an identical copy of the current model also listed (%s) it says '%s'" % (
                    l1, va, order, v), {"label": label, "alone": va, "with_other_versions": v})
    # elementary changes in context
    ctx_err = {label: (r1.get("err") or "; ".join(r1.get("warnings") or []))[:300] for label, cls, r1, r2 in results if label.startswith("ctx/")}
    for label, v in sorted(verdicts.items()):
        if not label.startswith("ctx/"):
            continue
        _, dn, pl, cn = label.split("/")
        cls = ctx_cls[label]
        top = verdicts.get("ctx/%s/%s/id" % (dn, pl))
        chk.nontriv(label)
        case = {"label": label, "delta": dn, "placement": pl, "context": cn, "verdict": v, "verdict_without_context": top, "detail": ctx_err.get(label)}
        if cn == "id" and cls is not None:
            want = {"partial": "warning", "incompatible": "error"}[cls]
            if v != want:
                chk.fail("%s/expected-%s-got-%s/ctx-%s" % (cls, want, v, dn), "%s: documented class %s => %s, yardl says %s: %s" % (label, cls, want, v, ctx_err.get(label)), case)
            continue
        if "union" in cn:
            # a union case whose type changed is a removed case plus an added one: documented as partially compatible
            # ("adding or removing types to/from a union"), so a warning is what the documentation prescribes there
            if top in ("warning", "error") and v == "silent":
                chk.fail("context/change-silent-in-context/%s/%s" % (dn, cn), "%s: the change %s is reported on its own (%s: %s) but passes silently under %s" % (label, dn, pl, top, cn), case)
            continue
        if cls == "incompatible" and v != "error":
            chk.fail("context/documented-incompatible-change-accepted/%s/%s" % (dn, cn), "%s: the documented incompatible change %s is %s when it happens under %s (%s)" % (
                label, dn, "accepted silently" if v == "silent" else "accepted with a warning", cn, pl), case)
        elif top == "error" and v != "error":
            chk.fail("context/error-on-its-own-accepted-in-context/%s/%s" % (dn, cn), "%s: the change %s is an error on its own (%s) but is %s under %s" % (
                label, dn, pl, "accepted silently" if v == "silent" else "accepted with a warning", cn), case)
        elif top in ("warning", "error") and v == "silent":
            chk.fail("context/change-silent-in-context/%s/%s" % (dn, cn), "%s: the change %s is reported on its own (%s: %s) but passes silently under %s" % (label, dn, pl, top, cn), case)
    chk.extra.update({"states": len(states), "transitions": len(results) * 2, "traces_validated_against_impl": len(results) * 2, "pairs": len(results)})
    chk.assumptions += ["the reference classes are the example lists of docs/cpp/evolution.md; edits the docs do not classify (e.g. reordering enum values) are executed for totality/determinism only",
                        "in-process LoadPackage + validatePackage stands for `yardl validate` on a package with `versions:`"]
    return chk.finish()


def unrelated_models():
    out = []
    defs = [
        ([Record("A", [("x", P("int32"))])], [("s", N("A"))]),
        ([Enum("A", [("p", 0)])], [("s", N("A"))]),
        ([Alias("A", Vec(P("string")))], [("s", N("A"))]),
        ([Record("A", [("x", TP("T"))], tparams=("T",))], [("s", N("A", P("int32")))]),
        ([Alias("A", Union(P("int32"), P("string")))], [("s", Stream(N("A")))]),
        ([Enum("A", [("p", 1)], flags=True)], [("t", N("A")), ("s", P("int32"))]),
        ([Alias("A", Map(P("string"), P("int32"))), Record("B", [("a", N("A"))])], [("s", N("B"))]),
        ([Record("B", [("x", P("int32"))]), Alias("A", N("B"))], [("s", Stream(N("A")))]),
        ([Alias("A", TP("T"), tparams=("T",))], [("s", N("A", P("float32")))]),
        ([Record("A", [("x", Opt(P("int32")))]), Alias("B", Arr(N("A"), 2))], [("s", N("B")), ("q", N("A"))]),
        ([], [("s", P("int32"))]),
        ([Record("A", [("a", TP("T")), ("b", TP("U"))], tparams=("T", "U")), Alias("B", N("A", P("int32"), TP("V")), tparams=("V",))], [("s", N("B", P("string")))]),
    ]
    for d, steps in defs:
        out.append(Package("Evo", defs=d, protocols=[Protocol("P", steps)], dirname="evo"))
    # models without any protocol / without any definition at all, a protocol of another name (every pair with the models above
    # removes or adds a protocol), and generic aliases that permute / repeat / drop-and-fix their parameters
    pair = Record("G", [("a", TP("A")), ("b", TP("B"))], tparams=("A", "B"))
    out.append(Package("Evo", defs=[], protocols=[], dirname="evo"))
    out.append(Package("Evo", defs=[Record("A", [("x", P("int32"))])], protocols=[], dirname="evo"))
    out.append(Package("Evo", defs=[Record("A", [("x", P("int32"))])], protocols=[Protocol("Q", [("s", N("A"))])], dirname="evo"))
    out.append(Package("Evo", defs=[Record("A", [("x", P("int32"))])], protocols=[Protocol("P", [("s", N("A"))]), Protocol("Q", [("t", Stream(N("A")))])], dirname="evo"))
    def named(name, pkg):
        pkg.verif_name = name
        out.append(pkg)
    named("generic-alias-permutes-parameters", Package("Evo", defs=[copy.deepcopy(pair), Alias("Rev", N("G", TP("Y"), TP("X")), tparams=("X", "Y"))],
          protocols=[Protocol("P", [("s", N("Rev", P("string"), P("int32")))])], dirname="evo"))
    named("generic-union-alias-permutes-parameters", Package("Evo", defs=[Alias("RevU", Union(TP("Y"), TP("X")), tparams=("X", "Y"))],
          protocols=[Protocol("P", [("s", N("RevU", P("string"), P("int32")))])], dirname="evo"))
    named("generic-alias-repeats-parameter", Package("Evo", defs=[copy.deepcopy(pair), Alias("Dup", N("G", TP("X"), TP("X")), tparams=("X",))],
          protocols=[Protocol("P", [("s", N("Dup", P("int32")))])], dirname="evo"))
    named("generic-alias-fixes-one-parameter", Package("Evo", defs=[copy.deepcopy(pair), Alias("Half", N("G", TP("X"), P("float32")), tparams=("X",))],
          protocols=[Protocol("P", [("t", N("Half", P("string")))])], dirname="evo"))
    named("generic-alias-same-order-other-names", Package("Evo", defs=[copy.deepcopy(pair), Alias("Same", N("G", TP("X"), TP("Y")), tparams=("X", "Y"))],
          protocols=[Protocol("P", [("t", N("Same", P("string"), P("int32")))])], dirname="evo"))
    named("generic-alias-permutes-parameters-nested", Package("Evo", defs=[copy.deepcopy(pair), Alias("Deep", N("G", N("G", TP("Y"), TP("X")), Vec(TP("Y"))), tparams=("X", "Y"))],
          protocols=[Protocol("P", [("u", Stream(N("Deep", P("int32"), P("string"))))])], dirname="evo"))
    named("generic-record-field-permutes-parameters", Package("Evo", defs=[copy.deepcopy(pair), Record("H", [("g", N("G", TP("Y"), TP("X"))), ("v", Vec(TP("X")))], tparams=("X", "Y"))],
          protocols=[Protocol("P", [("u", N("H", P("int32"), P("string")))])], dirname="evo"))
    return out

"""C15 Readers refuse streams of a different schema or format.

Cross-feed matrix: a family of near-identical packages (a base protocol and every single wire-affecting edit of it, same
namespace and names) - the stream of every package is fed to the generated reader of every other package, binary and NDJSON,
C++ and Python; plus every single-byte substitution of the binary magic/version, every bit flip of the schema length and
schema text, unknown version numbers and NDJSON header mutations of one valid stream. The reader must raise before
delivering any value. A package that registers another as previous version must accept its streams (guards the oracle)."""
import copy, json, os, struct
from concurrent.futures import ThreadPoolExecutor

import am, build, cppdrv, refcodec, roundtrip, rtengine, values
from am import P, N, TP, Opt, Union, Vec, Arr, Map, Stream, Record, Enum, Alias, Protocol, Package
from evidence import Check


def base(simple=False):
    defs = [Record("Rec", [("x", P("int32")), ("y", P("string")), ("z", Opt(P("float32")))]),
            Enum("Kind", [("a", 0), ("b", 1)]),
            Alias("Al", Vec(P("int16"))),
            Record("Wrap", [("w", TP("T")), ("n", P("int32"))], tparams=("T",)),
            Record("Rec2", [("v", P("int32"))])]
    lib = Package("Lib", defs=[Record("Rec", [("q", P("int32"))]), Record("Wrap", [("lw", TP("T"))], tparams=("T",))], dirname="lib")
    steps = [("a", P("int32")), ("b", Stream(N("Rec"))), ("c", Union(P("int32"), P("string"))), ("d", Vec(P("float32"), 3)),
             ("e", Arr(P("float32"), [2, 3])), ("f", N("Kind")), ("g", Map(P("string"), P("int32"))), ("h", Opt(P("int32"))), ("i", N("Al")),
             ("j", Stream(P("uint8"))), ("k", N("Wrap", N("Rec"))), ("l", N("Wrap", N("Rec2"))), ("m", N("Lib.Rec")), ("n", N("Lib.Wrap", N("Rec")))]
    if simple:   # without the same-named imported generic (the evolution guard trips over a separate C++ codegen defect, see C08)
        return Package("Xf", defs=defs[:3], protocols=[Protocol("Proto", steps[:10])], dirname="xf")
    return Package("Xf", defs=defs, protocols=[Protocol("Proto", steps)], imports=[lib], dirname="xf")


def variants():
    """(label, package, wire_class) - wire_class 'changed' (encoding of some value differs) or 'same-encoding' (schema text
    differs but bytes are laid out identically, e.g. a dimension name)."""
    out = [("base", base(), "base")]

    def mk(label, fn, cls="changed"):
        p = base()
        fn(p)
        out.append((label, p, cls))

    def step(p, name, t):
        pr = p.protocols[0]
        pr.steps = [(n, t if n == name else old) for n, old in pr.steps]

    def rec(p):
        return p.defs[0]
    mk("a-int64", lambda p: step(p, "a", P("int64")))
    mk("a-uint32", lambda p: step(p, "a", P("uint32")))
    mk("a-float32", lambda p: step(p, "a", P("float32")))
    mk("rec-field-type", lambda p: setattr(rec(p), "fields", [("x", P("int64")), ("y", P("string")), ("z", Opt(P("float32")))]))
    mk("rec-field-added", lambda p: rec(p).fields.append(("w", P("bool"))))
    mk("rec-field-removed", lambda p: rec(p).fields.pop())
    mk("rec-fields-reordered", lambda p: rec(p).fields.reverse())
    mk("rec-field-renamed", lambda p: setattr(rec(p), "fields", [("x2", P("int32")), ("y", P("string")), ("z", Opt(P("float32")))]), "same-encoding")
    mk("rec-optional-to-required", lambda p: setattr(rec(p), "fields", [("x", P("int32")), ("y", P("string")), ("z", P("float32"))]))
    mk("union-reordered", lambda p: step(p, "c", Union(P("string"), P("int32"))))
    mk("union-case-added", lambda p: step(p, "c", Union(P("int32"), P("string"), P("bool"))))
    mk("union-null-added", lambda p: step(p, "c", Union(None, P("int32"), P("string"))))
    mk("union-tags", lambda p: step(p, "c", Union(("i", P("int32")), ("s", P("string")))), "same-encoding")
    mk("vector-length", lambda p: step(p, "d", Vec(P("float32"), 4)))
    mk("vector-dynamic", lambda p: step(p, "d", Vec(P("float32"))))
    mk("vector-length-zero", lambda p: step(p, "d", Vec(P("float32"), 0)))     # encodes nothing; the dynamic vector above encodes a count
    mk("array-shape", lambda p: step(p, "e", Arr(P("float32"), [3, 2])), "same-encoding")
    mk("array-rank", lambda p: step(p, "e", Arr(P("float32"), [6])), "same-encoding")
    mk("array-not-fixed", lambda p: step(p, "e", Arr(P("float32"), 2)))
    mk("array-dimension-names", lambda p: step(p, "e", Arr(P("float32"), (("r", 2), ("c", 3)))), "same-encoding")
    mk("array-element", lambda p: step(p, "e", Arr(P("float64"), [2, 3])))
    mk("enum-base", lambda p: setattr(p.defs[1], "base", "uint8"))
    mk("enum-values", lambda p: setattr(p.defs[1], "values", [("a", 0), ("b", 2)]), "same-encoding")
    mk("enum-symbols", lambda p: setattr(p.defs[1], "values", [("a", 0), ("c", 1)]), "same-encoding")
    mk("enum-to-flags", lambda p: setattr(p.defs[1], "flags", True))
    mk("map-key", lambda p: step(p, "g", Map(P("int32"), P("int32"))))
    mk("map-value", lambda p: step(p, "g", Map(P("string"), P("int64"))))
    mk("optional-to-required", lambda p: step(p, "h", P("int32")))
    mk("alias-target", lambda p: setattr(p.defs[2], "type", Vec(P("int32"))))
    mk("stream-item", lambda p: step(p, "j", Stream(P("int8"))), "same-encoding")
    mk("stream-to-vector", lambda p: step(p, "j", Vec(P("uint8"))))
    mk("type-only-used-as-second-generic-argument", lambda p: setattr(p.defs[4], "fields", [("v", P("int64"))]))
    mk("imported-type-with-same-simple-name", lambda p: setattr(p.imports[0].defs[0], "fields", [("q", P("string"))]))
    mk("imported-generic-with-same-simple-name", lambda p: setattr(p.imports[0].defs[1], "fields", [("lw", TP("T")), ("extra", P("bool"))]))
    mk("generic-definition", lambda p: setattr(p.defs[3], "fields", [("w", TP("T")), ("n", P("int64"))]))

    def rename_step(p):
        pr = p.protocols[0]
        pr.steps = [("a2" if n == "a" else n, t) for n, t in pr.steps]
    mk("step-renamed", rename_step, "same-encoding")

    def swap_steps(p):
        s = p.protocols[0].steps
        s[0], s[7] = s[7], s[0]
    mk("steps-swapped", swap_steps)
    mk("step-added", lambda p: p.protocols[0].steps.append(("zz", P("int32"))))
    mk("step-removed", lambda p: p.protocols[0].steps.pop())

    def rename_proto(p):
        p.protocols[0].name = "Proto2"
    mk("protocol-renamed", rename_proto, "same-encoding")

    def rename_ns(p):
        p.namespace = "Xg"
    mk("namespace-renamed", rename_ns, "same-encoding")
    return out


def default_values(steps):
    vals = []
    for _, t in steps:
        it = t[1] if t[0] == "stream" else t
        vs = values.values(it, 1, json_safe=True)
        nd = vs[1] if len(vs) > 1 else vs[0]
        vals.append([nd, vs[0]] if t[0] == "stream" else nd)
    return vals


def prepare(label, pkg, with_versions=None):
    pkg = copy.deepcopy(pkg)
    pkg.dirname = "v_" + label.replace("-", "_")
    if with_versions:
        old = copy.deepcopy(with_versions)
        old.dirname = "old_" + label.replace("-", "_")
        pkg.versions = [("v0", old)]
    pr = roundtrip.prepare_one(pkg, [], want_cpp=True, want_py=True)
    if pr.gen_rc != 0:
        raise build.HarnessError("yardl rejected C15 variant %s: %s" % (label, pr.gen_err[-400:]))
    if pr.cpp is None:
        raise build.HarnessError("C15 variant %s does not compile: %s" % (label, list(pr.cpp_errors.values())[0][:600]))
    return pr


def value_lines(out):
    try:
        lines = [l for l in out.decode("utf-8", errors="replace").split("\n") if l.strip()]
    except Exception:
        return 0
    return max(0, len(lines) - 1)


def main(tier):
    quick = tier == "quick"
    chk = Check("C15", "fault_enumeration", tier,
                "34 packages that differ from a base protocol by one edit (step/field types, field add/remove/reorder/rename, union "
                "order/cases/tags, vector length, array shape/rank/names/element, enum base/values/symbols, enum->flags, map key/value, "
                "optionality, alias target, stream item, step rename/swap/add/remove, protocol and namespace rename): every ordered pair "
                "(stream of A -> reader of B) x {binary, NDJSON} x {C++, Python}; one valid stream with every single-byte substitution of "
                "magic+version, every bit flip of the schema length and schema text, version numbers 0/2/2^31, and NDJSON header mutations; "
                "non-trivial = every foreign/corrupted stream (all of them must be refused)")
    build.yardl_bin()
    cppdrv.inc_dir()
    vs = variants()
    if quick:
        keep = {"base", "a-int64", "rec-field-added", "rec-fields-reordered", "rec-field-renamed", "union-reordered", "union-tags", "vector-length",
                "array-shape", "array-dimension-names", "enum-base", "enum-symbols", "enum-to-flags", "map-key", "optional-to-required", "step-renamed",
                "steps-swapped", "step-removed", "protocol-renamed", "namespace-renamed", "stream-item", "alias-target",
                "type-only-used-as-second-generic-argument", "imported-type-with-same-simple-name", "imported-generic-with-same-simple-name", "generic-definition"}
        vs = [v for v in vs if v[0] in keep]
    with ThreadPoolExecutor(8) as ex:
        prs = list(ex.map(lambda v: prepare(v[0], v[1]), vs))
        # the package with a registered previous version also has a protocol that did not change since that version
        same = Protocol("Same", [("count", P("int32")), ("items", Stream(P("float32")))])
        evo_new, evo_base = base(simple=True), base(simple=True)
        evo_new.defs[0].fields.append(("w", P("bool")))
        evo_new.protocols.append(copy.deepcopy(same)); evo_base.protocols.append(copy.deepcopy(same))
        evo = ex.submit(prepare, "evo", evo_new, evo_base).result()
        evo_old = ex.submit(prepare, "evoold", evo_base).result()
    streams = {}
    for (label, pkg, cls), pr in zip(vs, prs):
        Pn = pkg.protocols[0].name
        steps = pr.steps[Pn]
        vals = default_values(steps)
        data = refcodec.encode_protocol(steps, vals, pr.schemas[Pn], None)
        st, nd, msg = pr.cpp.call(Pn, "b2n", data, 1)
        if st != "OK":
            raise build.HarnessError("variant %s cannot translate its own stream: %s %s" % (label, st, msg))
        for lang in ("cpp", "py"):           # every reader accepts its own stream (guards the harness)
            for mode, d in (("b2n", data), ("n2n", nd)):
                st2, out2, msg2 = (pr.cpp if lang == "cpp" else pr.py).call(Pn, mode, d, 1)
                if st2 != "OK":
                    raise build.HarnessError("variant %s %s reader rejects its own %s stream: %s" % (label, lang, mode, msg2))
        streams[label] = (Pn, data, nd, pr.schemas[Pn])
    # cross feed
    for (la, pa, ca), _ in zip(vs, prs):
        Pa, da, na, sa = streams[la]
        for (lb, pb, cb), prb in zip(vs, prs):
            if la == lb:
                continue
            Pb = pb.protocols[0].name
            same_schema = (sa == streams[lb][3])
            for lang in ("cpp", "py"):
                drv = prb.cpp if lang == "cpp" else prb.py
                for fmt, mode, d in (("binary", "b2n", da), ("ndjson", "n2n", na)):
                    st, out, msg = drv.call(Pb, mode, d, 1)
                    chk.count()
                    chk.nontriv((la, lb, lang, fmt))
                    chk.outcome((lang, fmt, st))
                    delivered = value_lines(out)
                    if st == "OK" or delivered > 0:
                        what = "accepted" if st == "OK" else "delivered-%d-values-before-error" % delivered
                        key = "foreign-stream/%s->%s/%s/%s/%s" % (la, lb, lang, fmt, "accepted" if st == "OK" else "values-before-error")
                        chk.fail(key, "%s %s reader of variant '%s' %s a stream written under variant '%s'%s" % (
                            lang, fmt, lb, what, la, " (the two schema texts are identical!)" if same_schema else ""),
                            {"writer_variant": la, "reader_variant": lb, "lang": lang, "format": fmt, "status": st, "message": msg[:300],
                             "writer_model": am.yaml_model(pa), "reader_model": am.yaml_model(pb), "schemas_identical": same_schema})
                    elif st in ("DIED", "HANG"):
                        chk.fail("%s/%s/crash-on-foreign-stream/%s->%s" % (lang, fmt, la, lb), "%s: %s" % (st, msg[-300:]), {"writer_variant": la, "reader_variant": lb})
    # previous version registered: must be accepted
    Pb = "Proto"
    osteps = evo_old.steps["Proto"]
    odata = refcodec.encode_protocol(osteps, default_values(osteps), evo_old.schemas["Proto"], None)
    st, out, msg = evo.cpp.call(Pb, "b2b", odata, 1)
    chk.count()
    if st != "OK":
        chk.fail("cpp/binary/registered-previous-version-rejected", "reader that lists the base model as version v0 rejects a base stream: %s" % msg[:300], {"message": msg})
    # header damage seen by readers that know a previous version (changed protocol Proto, unchanged protocol Same): the schema string
    # emptied, cut short, replaced by another protocol's, by the previous version's with one character changed
    for Pv in ("Proto", "Same"):
        vsteps = evo.steps[Pv]
        vdata = refcodec.encode_protocol(vsteps, default_values(vsteps), evo.schemas[Pv], None)
        sch = evo.schemas[Pv].encode()
        body = vdata[len(refcodec.header(evo.schemas[Pv])):]
        hdr = lambda text: vdata[:9] + refcodec.uvarint(len(text)) + text + body
        other = evo.schemas["Same" if Pv == "Proto" else "Proto"].encode()
        oldsch = evo_old.schemas[Pv].encode()
        vmuts = [("schema-empty", hdr(b"")), ("schema-one-character", hdr(sch[:1])), ("schema-cut-in-half", hdr(sch[:len(sch) // 2])), ("schema-without-last-character", hdr(sch[:-1])),
                 ("schema-of-other-protocol", hdr(other)), ("schema-null-bytes", hdr(b"\x00" * len(sch))), ("schema-json-null", hdr(b"null")), ("schema-empty-object", hdr(b"{}")),
                 ("previous-schema-one-character-changed", hdr(oldsch[:-2] + b" " + oldsch[-1:])), ("schema-twice", hdr(sch + sch))]
        for name, d in vmuts:
            for lang in ("cpp", "py"):
                st, out, msg = (evo.cpp if lang == "cpp" else evo.py).call(Pv, "b2n", d, 1)
                chk.count()
                chk.nontriv(("versioned", Pv, name, lang))
                if st == "OK" or value_lines(out) > 0:
                    chk.fail("%s/binary/corrupted-header-accepted/versioned-reader/%s" % (lang, name), "%s reader of %s (a package that registers a previous version) %s a stream whose header has %s" % (
                        lang, Pv, "accepted" if st == "OK" else "delivered values from", name), {"mutation": name, "protocol": Pv, "lang": lang, "input_hex": d[:60].hex(), "status": st, "message": msg[:300]})
                elif st in ("DIED", "HANG"):
                    chk.fail("%s/binary/crash-on-corrupted-header/versioned-reader/%s" % (lang, name), "%s: %s" % (st, msg[-300:]), {"mutation": name, "protocol": Pv})
    # several readers in one process: after a reader of protocol A has been opened (and has accepted A's stream), a reader of
    # protocol B must still refuse A's stream, in both formats and both languages, in both orders
    twop = {}
    for Pv in ("Proto", "Same"):
        vsteps = evo.steps[Pv]
        bd = refcodec.encode_protocol(vsteps, default_values(vsteps), evo.schemas[Pv], None)
        stn, ndj, _ = evo.cpp.call(Pv, "b2n", bd, 1)
        twop[Pv] = (bd, ndj)
    for lang in ("cpp", "py"):
        drv = evo.cpp if lang == "cpp" else evo.py
        for first, second in (("Proto", "Same"), ("Same", "Proto")):
            for fmt, mode, idx in (("binary", "b2b", 0), ("ndjson", "n2b", 1)):
                st1, _, msg1 = drv.call(first, mode, twop[first][idx], 1)        # opens the first protocol's reader on its own stream
                st2, out2, msg2 = drv.call(second, mode, twop[first][idx], 1)    # the other protocol's reader on the same stream
                st3, _, msg3 = drv.call(second, mode, twop[second][idx], 1)      # ... and on its own stream
                chk.count(3)
                chk.nontriv(("two-readers", lang, first, fmt))
                if st1 != "OK" or st3 != "OK":
                    chk.fail("%s/%s/own-stream-rejected-after-another-reader" % (lang, fmt), "%s %s: a reader rejects its own protocol's stream after a reader of another protocol was used in the same process: %s" % (
                        lang, fmt, (msg1 if st1 != "OK" else msg3)[:200]), {"lang": lang, "format": fmt, "first": first, "second": second})
                if st2 == "OK":
                    chk.fail("%s/%s/foreign-stream-accepted-after-another-reader" % (lang, fmt), "%s %s reader of %s accepted a stream of %s after a %s reader had been opened in the same process" % (
                        lang, fmt, second, first, first), {"lang": lang, "format": fmt, "first": first, "second": second})
    # header corruptions of the base stream
    bl, bp, _ = vs[0]
    pr0 = prs[0]
    Pn, data, nd, schema = streams["base"]
    hdr_len = len(refcodec.header(schema))
    muts = []
    for pos in range(9):
        for b in range(256):
            if b != data[pos]:
                muts.append(("magic-or-version-byte-%d" % pos, data[:pos] + bytes([b]) + data[pos + 1:]))
    lenbytes = len(refcodec.uvarint(len(schema.encode())))
    for pos in range(9, 9 + lenbytes):
        for bit in range(8):
            muts.append(("schema-length-bit", data[:pos] + bytes([data[pos] ^ (1 << bit)]) + data[pos + 1:]))
    spos = range(9 + lenbytes, hdr_len) if not quick else range(9 + lenbytes, hdr_len, 5)
    for pos in spos:
        for bit in (range(8) if not quick else (0, 5)):
            muts.append(("schema-text-bit", data[:pos] + bytes([data[pos] ^ (1 << bit)]) + data[pos + 1:]))
    for v in (0, 2, 2**31 - 1, -1):
        muts.append(("version-%d" % v, data[:5] + struct.pack("<i", v) + data[9:]))
    muts.append(("ndjson-as-binary", nd))
    bsch = schema.encode()
    for nm, text in (("schema-empty", b""), ("schema-cut-in-half", bsch[:len(bsch) // 2]), ("schema-without-last-character", bsch[:-1]), ("schema-json-null", b"null"), ("schema-twice", bsch + bsch)):
        muts.append((nm, data[:9] + refcodec.uvarint(len(text)) + text + data[hdr_len:]))
    for name, d in muts:
        for lang in ("cpp", "py"):
            st, out, msg = (pr0.cpp if lang == "cpp" else pr0.py).call(Pn, "b2n", d, 1)
            chk.count()
            chk.nontriv((name, hash(d), lang))
            chk.outcome((lang, "binary-header", st))
            if st == "OK" or value_lines(out) > 0:
                chk.fail("%s/binary/corrupted-header-accepted/%s" % (lang, name.rsplit("-", 1)[0] if name[-1].isdigit() else name),
                         "%s reader %s a stream with corrupted header (%s)" % (lang, "accepted" if st == "OK" else "delivered values from", name),
                         {"mutation": name, "lang": lang, "input_hex": d[:hdr_len + 20].hex(), "status": st, "message": msg[:300]})
            elif st in ("DIED", "HANG"):
                chk.fail("%s/binary/crash-on-corrupted-header/%s" % (lang, name), "%s: %s" % (st, msg[-300:]), {"mutation": name, "input_hex": d[:hdr_len + 20].hex()})
    # NDJSON header mutations
    lines = nd.split(b"\n", 1)
    h = json.loads(lines[0])
    nmuts = []

    def with_header(obj):
        return json.dumps(obj, separators=(",", ":")).encode() + b"\n" + lines[1]
    nmuts.append(("no-yardl-key", with_header({"notyardl": h["yardl"]})))
    nmuts.append(("no-version", with_header({"yardl": {"schema": h["yardl"]["schema"]}})))
    nmuts.append(("no-schema", with_header({"yardl": {"version": 1}})))
    for v in (0, 2, "1", None, 1.5, True, [1], {"v": 1}):
        nmuts.append(("version-%r" % (v,), with_header({"yardl": {"version": v, "schema": h["yardl"]["schema"]}})))
    nmuts.append(("schema-null", with_header({"yardl": {"version": 1, "schema": None}})))
    nmuts.append(("schema-string", with_header({"yardl": {"version": 1, "schema": "x"}})))
    nmuts.append(("header-missing", lines[1]))
    nmuts.append(("header-not-json", b"yardl\n" + lines[1]))
    nmuts.append(("binary-as-ndjson", data))
    sch = h["yardl"]["schema"]
    s2 = copy.deepcopy(sch); s2["protocol"]["name"] = "Other"; nmuts.append(("schema-protocol-name", with_header({"yardl": {"version": 1, "schema": s2}})))
    s3 = copy.deepcopy(sch); s3["protocol"]["sequence"][0]["type"] = "int64"; nmuts.append(("schema-step-type", with_header({"yardl": {"version": 1, "schema": s3}})))
    s4 = copy.deepcopy(sch); s4["types"] = s4["types"][:-1]; nmuts.append(("schema-types-dropped", with_header({"yardl": {"version": 1, "schema": s4}})))
    for name, d in nmuts:
        for lang in ("cpp", "py"):
            st, out, msg = (pr0.cpp if lang == "cpp" else pr0.py).call(Pn, "n2n", d, 1)
            chk.count()
            chk.nontriv((name, lang, "n"))
            chk.outcome((lang, "ndjson-header", st))
            if st == "OK" or value_lines(out) > 0:
                chk.fail("%s/ndjson/corrupted-header-accepted/%s" % (lang, name), "%s NDJSON reader accepted a stream with header mutation %s" % (lang, name),
                         {"mutation": name, "lang": lang, "header": d.split(b"\n")[0][:600].decode(errors="replace"), "status": st, "message": msg[:300]})
            elif st in ("DIED", "HANG"):
                chk.fail("%s/ndjson/crash-on-corrupted-header/%s" % (lang, name), "%s: %s" % (st, msg[-300:]), {"mutation": name})
    chk.sample({"variants": [v[0] for v in vs][:12], "binary_header_mutations": len(muts), "ndjson_header_mutations": len(nmuts)})
    for pr in prs + [evo, evo_old]:
        pr.close()
    chk.assumptions += ["delivered values are counted through the generated NDJSON writer output (0 value lines required)",
                        "C++ NDJSON compares the parsed schema JSON, binary compares the schema text: both are fine per the property"]
    return chk.finish()

// Declaration-only stand-in for the HDF5 C++ API, sufficient for `g++ -fsyntax-only` of yardl's generated HDF5 code.
// Signatures follow HDF5 1.10/1.12 H5Cpp.h; nothing is defined, so this cannot be linked or run.
#pragma once
#include <cassert>
#include <cstddef>
#include <cstdint>
#include <string>

typedef unsigned long long hsize_t_ull;
typedef uint64_t hsize_t;
typedef int64_t hssize_t;
typedef int64_t hid_t;
typedef int herr_t;
typedef bool hbool_t;
typedef struct { size_t len; void* p; } hvl_t;
typedef enum { H5S_SELECT_NOOP = -1, H5S_SELECT_SET = 0, H5S_SELECT_OR } H5S_seloper_t;
typedef enum { H5T_CSET_ASCII = 0, H5T_CSET_UTF8 = 1 } H5T_cset_t;
#define H5T_VARIABLE ((size_t)(-1))
#define H5S_UNLIMITED ((hsize_t)(-1))
#define H5F_ACC_RDONLY 0x0000u
#define H5F_ACC_RDWR 0x0001u
#define H5F_ACC_TRUNC 0x0002u
#define H5F_ACC_EXCL 0x0004u
#define H5F_ACC_CREAT 0x0010u
#define HOFFSET(S, M) (offsetof(S, M))

namespace H5 {
class Exception {
 public:
  std::string getDetailMsg() const;
  const char* getCDetailMsg() const;
  static void dontPrint();
};
class FileIException : public Exception {};
class GroupIException : public Exception {};
class DataSetIException : public Exception {};
class DataTypeIException : public Exception {};

class PropList {
 public:
  PropList();
  static const PropList& DEFAULT;
};
class DSetMemXferPropList : public PropList {
 public:
  DSetMemXferPropList();
  static const DSetMemXferPropList& DEFAULT;
  void setBuffer(size_t size, void* tconv, void* bkg) const;
};
class DSetCreatPropList : public PropList {
 public:
  DSetCreatPropList();
  static const DSetCreatPropList& DEFAULT;
  void setChunk(int ndims, const hsize_t* dim) const;
};
class FileCreatPropList : public PropList {
 public:
  static const FileCreatPropList& DEFAULT;
};
class FileAccPropList : public PropList {
 public:
  static const FileAccPropList& DEFAULT;
};

class DataSpace {
 public:
  DataSpace();
  DataSpace(int rank, const hsize_t* dims, const hsize_t* maxdims = nullptr);
  static const DataSpace& ALL;
  void selectElements(H5S_seloper_t op, const size_t num_elements, const hsize_t* coord) const;
  void selectHyperslab(H5S_seloper_t op, const hsize_t* count, const hsize_t* start, const hsize_t* stride = nullptr,
                       const hsize_t* block = nullptr) const;
  int getSimpleExtentDims(hsize_t* dims, hsize_t* maxdims = nullptr) const;
  int getSimpleExtentNdims() const;
  hssize_t getSimpleExtentNpoints() const;
};

class DataType {
 public:
  DataType();
  virtual ~DataType();
  size_t getSize() const;
  bool operator==(const DataType& compared_type) const;
  bool operator!=(const DataType& compared_type) const;
  hid_t getId() const;
};
class AtomType : public DataType {};
class PredType : public AtomType {
 public:
  static const PredType& NATIVE_CHAR;
  static const PredType& NATIVE_HBOOL;
  static const PredType& NATIVE_HSIZE;
  static const PredType& NATIVE_INT8;
  static const PredType& NATIVE_UINT8;
  static const PredType& NATIVE_INT16;
  static const PredType& NATIVE_UINT16;
  static const PredType& NATIVE_INT32;
  static const PredType& NATIVE_UINT32;
  static const PredType& NATIVE_INT64;
  static const PredType& NATIVE_UINT64;
  static const PredType& NATIVE_INT;
  static const PredType& NATIVE_UINT;
  static const PredType& NATIVE_LONG;
  static const PredType& NATIVE_ULONG;
  static const PredType& NATIVE_LLONG;
  static const PredType& NATIVE_ULLONG;
  static const PredType& NATIVE_FLOAT;
  static const PredType& NATIVE_DOUBLE;
  static const PredType& NATIVE_LDOUBLE;
  static const PredType& C_S1;
};
class StrType : public AtomType {
 public:
  StrType();
  StrType(const int dummy, const size_t& size);
  StrType(const PredType& pred_type, const size_t& size);
  void setCset(H5T_cset_t cset) const;
};
class CompType : public DataType {
 public:
  CompType();
  explicit CompType(size_t size);
  void insertMember(const std::string& name, size_t offset, const DataType& new_member) const;
};
class EnumType : public DataType {
 public:
  EnumType();
  explicit EnumType(const DataType& data_type);
  explicit EnumType(size_t size);
  void insert(const char* name, void* value) const;
  void insert(const std::string& name, void* value) const;
};
class ArrayType : public DataType {
 public:
  ArrayType();
  ArrayType(const DataType& base_type, int ndims, const hsize_t* dims);
};
class VarLenType : public DataType {
 public:
  VarLenType();
  explicit VarLenType(const DataType& base_type);
  explicit VarLenType(const DataType* base_type);
};

class DataSet {
 public:
  DataSet();
  void write(const void* buf, const DataType& mem_type, const DataSpace& mem_space = DataSpace::ALL,
             const DataSpace& file_space = DataSpace::ALL,
             const DSetMemXferPropList& xfer_plist = DSetMemXferPropList::DEFAULT) const;
  void read(void* buf, const DataType& mem_type, const DataSpace& mem_space = DataSpace::ALL,
            const DataSpace& file_space = DataSpace::ALL,
            const DSetMemXferPropList& xfer_plist = DSetMemXferPropList::DEFAULT) const;
  void extend(const hsize_t* size) const;
  DataSpace getSpace() const;
  DataType getDataType() const;
  static void vlenReclaim(const DataType& type, const DataSpace& space, const DSetMemXferPropList& xfer_plist, void* buf);
  static void vlenReclaim(void* buf, const DataType& type, const DataSpace& space = DataSpace::ALL,
                          const DSetMemXferPropList& xfer_plist = DSetMemXferPropList::DEFAULT);
  void close();
};

class Attribute {
 public:
  void write(const DataType& mem_type, const void* buf) const;
  void read(const DataType& mem_type, void* buf) const;
};
class Group;
class H5Location {
 public:
  Attribute createAttribute(const std::string& name, const DataType& type, const DataSpace& space,
                            const PropList& create_plist = PropList::DEFAULT) const;
  Attribute openAttribute(const std::string& name) const;
  bool attrExists(const std::string& name) const;
  bool nameExists(const std::string& name) const;
  bool exists(const std::string& name) const;
  Group createGroup(const std::string& name, size_t size_hint = 0) const;
  Group openGroup(const std::string& name) const;
  DataSet createDataSet(const std::string& name, const DataType& data_type, const DataSpace& data_space,
                        const DSetCreatPropList& create_plist = DSetCreatPropList::DEFAULT) const;
  DataSet openDataSet(const std::string& name) const;
};
class Group : public H5Location {
 public:
  Group();
  void close();
};
class H5File : public Group {
 public:
  H5File();
  H5File(const std::string& name, unsigned int flags,
         const FileCreatPropList& create_plist = FileCreatPropList::DEFAULT,
         const FileAccPropList& access_plist = FileAccPropList::DEFAULT);
  void close();
  void flush(int scope) const;
};
}  // namespace H5

// Stand-in array implementation for yardl's documented `cpp.overrideArrayHeader` extension point
// (xtensor is not installed in the verification sandbox). Implements exactly the free-function
// interface documented in docs/cpp/arrays.md / detail/ndarray/impl.h.
#pragma once
#include <array>
#include <cstddef>
#include <memory>
#include <stdexcept>
#include <utility>
#include <vector>

namespace yardl {
namespace verif_detail {
// own buffer (std::vector<bool> would not give a T* / T&)
template <typename T>
class Buf {
 public:
  Buf() = default;
  explicit Buf(size_t n) : n_(n), p_(n ? new T[n]() : nullptr) {}
  Buf(Buf const& o) : n_(o.n_), p_(o.n_ ? new T[o.n_]() : nullptr) {
    for (size_t i = 0; i < n_; i++) p_[i] = o.p_[i];
  }
  Buf(Buf&& o) noexcept = default;
  Buf& operator=(Buf const& o) {
    if (this != &o) { Buf t(o); std::swap(n_, t.n_); std::swap(p_, t.p_); }
    return *this;
  }
  Buf& operator=(Buf&& o) noexcept = default;
  size_t size() const { return n_; }
  T* data() { return p_.get(); }
  T const* data() const { return p_.get(); }
 private:
  size_t n_ = 0;
  std::unique_ptr<T[]> p_;
};
template <typename S>
inline size_t product(S const& shape) { size_t n = 1; for (auto d : shape) n *= d; return n; }
template <typename S, class... Args>
inline size_t flat_index(S const& shape, Args... idx) {
  size_t ids[] = {static_cast<size_t>(idx)...};
  if (sizeof...(idx) != shape.size()) throw std::out_of_range("rank");
  size_t off = 0;
  for (size_t i = 0; i < shape.size(); i++) {
    if (ids[i] >= shape[i]) throw std::out_of_range("index");
    off = off * shape[i] + ids[i];
  }
  return off;
}
}  // namespace verif_detail

template <typename T, size_t... Dims>
class FixedNDArray {
 public:
  using value_type = T;
  static constexpr size_t kSize = (Dims * ... * 1);
  FixedNDArray() : d_{} {}
  FixedNDArray(std::initializer_list<T> l) : d_{} { size_t i = 0; for (auto const& v : l) if (i < kSize) d_[i++] = v; }
  T* begin() { return d_.data(); }
  T* end() { return d_.data() + kSize; }
  T const* begin() const { return d_.data(); }
  T const* end() const { return d_.data() + kSize; }
  T* data() { return d_.data(); }
  T const* data() const { return d_.data(); }
  bool operator==(FixedNDArray const& o) const { return d_ == o.d_; }
  bool operator!=(FixedNDArray const& o) const { return !(*this == o); }
 private:
  std::array<T, kSize> d_;
};

template <typename T, size_t N>
class NDArray {
 public:
  using value_type = T;
  NDArray() : shape_{}, d_(N == 0 ? 1 : 0) {}
  T* begin() { return d_.data(); }
  T* end() { return d_.data() + d_.size(); }
  T const* begin() const { return d_.data(); }
  T const* end() const { return d_.data() + d_.size(); }
  std::array<size_t, N> const& shape() const { return shape_; }
  void resize(std::array<size_t, N> const& s) { shape_ = s; d_ = verif_detail::Buf<T>(verif_detail::product(s)); }
  size_t size() const { return d_.size(); }
  bool operator==(NDArray const& o) const {
    if (shape_ != o.shape_) return false;
    for (size_t i = 0; i < d_.size(); i++) if (!(d_.data()[i] == o.d_.data()[i])) return false;
    return true;
  }
  bool operator!=(NDArray const& o) const { return !(*this == o); }
 private:
  std::array<size_t, N> shape_;
  verif_detail::Buf<T> d_;
};

template <typename T>
class DynamicNDArray {
 public:
  using value_type = T;
  DynamicNDArray() : shape_{}, d_(1) {}
  T* begin() { return d_.data(); }
  T* end() { return d_.data() + d_.size(); }
  T const* begin() const { return d_.data(); }
  T const* end() const { return d_.data() + d_.size(); }
  std::vector<size_t> const& shape() const { return shape_; }
  void resize(std::vector<size_t> const& s) { shape_ = s; d_ = verif_detail::Buf<T>(verif_detail::product(s)); }
  size_t size() const { return d_.size(); }
  bool operator==(DynamicNDArray const& o) const {
    if (shape_ != o.shape_) return false;
    for (size_t i = 0; i < d_.size(); i++) if (!(d_.data()[i] == o.d_.data()[i])) return false;
    return true;
  }
  bool operator!=(DynamicNDArray const& o) const { return !(*this == o); }
 private:
  std::vector<size_t> shape_;
  verif_detail::Buf<T> d_;
};

/**** FixedNDArray ****/
template <typename T, size_t... Dims>
constexpr size_t size(FixedNDArray<T, Dims...> const&) { return FixedNDArray<T, Dims...>::kSize; }
template <typename T, size_t... Dims>
constexpr size_t dimension(FixedNDArray<T, Dims...> const&) { return sizeof...(Dims); }
template <typename T, size_t... Dims>
constexpr std::array<size_t, sizeof...(Dims)> shape(FixedNDArray<T, Dims...> const&) { return {Dims...}; }
template <typename T, size_t... Dims>
constexpr size_t shape(FixedNDArray<T, Dims...> const& arr, size_t dim) { return shape(arr)[dim]; }
template <typename T, size_t... Dims>
T* dataptr(FixedNDArray<T, Dims...>& arr) { return arr.data(); }
template <typename T, size_t... Dims>
T const* dataptr(FixedNDArray<T, Dims...> const& arr) { return arr.data(); }
template <typename T, size_t... Dims, class... Args>
T const& at(FixedNDArray<T, Dims...> const& arr, Args... idx) {
  return arr.data()[verif_detail::flat_index(shape(arr), idx...)];
}

/**** NDArray ****/
template <typename T, size_t N>
size_t size(NDArray<T, N> const& arr) { return arr.size(); }
template <typename T, size_t N>
size_t dimension(NDArray<T, N> const&) { return N; }
template <typename T, size_t N>
std::array<size_t, N> shape(NDArray<T, N> const& arr) { return arr.shape(); }
template <typename T, size_t N>
size_t shape(NDArray<T, N> const& arr, size_t dim) { return arr.shape().at(dim); }
template <typename T, size_t N>
void resize(NDArray<T, N>& arr, std::array<size_t, N> const& shape) { arr.resize(shape); }
template <typename T, size_t N>
T* dataptr(NDArray<T, N>& arr) { return arr.begin(); }
template <typename T, size_t N>
T const* dataptr(NDArray<T, N> const& arr) { return arr.begin(); }
template <typename T, size_t N, class... Args>
T const& at(NDArray<T, N> const& arr, Args... idx) { return arr.begin()[verif_detail::flat_index(arr.shape(), idx...)]; }

/**** DynamicNDArray ****/
template <typename T>
size_t size(DynamicNDArray<T> const& arr) { return arr.size(); }
template <typename T>
size_t dimension(DynamicNDArray<T> const& arr) { return arr.shape().size(); }
template <typename T>
std::vector<size_t> shape(DynamicNDArray<T> const& arr) { return arr.shape(); }
template <typename T>
size_t shape(DynamicNDArray<T> const& arr, size_t dim) { return arr.shape().at(dim); }
template <typename T>
void resize(DynamicNDArray<T>& arr, std::vector<size_t> const& shape) { arr.resize(shape); }
template <typename T>
T* dataptr(DynamicNDArray<T>& arr) { return arr.begin(); }
template <typename T>
T const* dataptr(DynamicNDArray<T> const& arr) { return arr.begin(); }
template <typename T, class... Args>
T const& at(DynamicNDArray<T> const& arr, Args... idx) { return arr.begin()[verif_detail::flat_index(arr.shape(), idx...)]; }

}  // namespace yardl

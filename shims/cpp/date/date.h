// Minimal stand-in for Howard Hinnant's date library (not installed in the verification sandbox):
// only what yardl's shipped headers use: date::days, date::local_days, date::format and
// date::from_stream for the format strings "%F", "%T" and "%FT%T".
#pragma once
#include <chrono>
#include <cstdio>
#include <cstring>
#include <istream>
#include <string>

namespace date {
using days = std::chrono::duration<int, std::ratio<86400>>;
struct local_t {};
template <class Duration>
using local_time = std::chrono::time_point<local_t, Duration>;
using local_days = local_time<days>;

namespace verif_detail {
inline void civil_from_days(long long z, long long& y, unsigned& m, unsigned& d) {
  z += 719468;
  const long long era = (z >= 0 ? z : z - 146096) / 146097;
  const unsigned doe = static_cast<unsigned>(z - era * 146097);
  const unsigned yoe = (doe - doe / 1460 + doe / 36524 - doe / 146096) / 365;
  y = static_cast<long long>(yoe) + era * 400;
  const unsigned doy = doe - (365 * yoe + yoe / 4 - yoe / 100);
  const unsigned mp = (5 * doy + 2) / 153;
  d = doy - (153 * mp + 2) / 5 + 1;
  m = mp < 10 ? mp + 3 : mp - 9;
  y += (m <= 2);
}
inline long long days_from_civil(long long y, unsigned m, unsigned d) {
  y -= m <= 2;
  const long long era = (y >= 0 ? y : y - 399) / 400;
  const unsigned yoe = static_cast<unsigned>(y - era * 400);
  const unsigned doy = (153 * (m > 2 ? m - 3 : m + 9) + 2) / 5 + d - 1;
  const unsigned doe = yoe * 365 + yoe / 4 - yoe / 100 + doy;
  return era * 146097 + static_cast<long long>(doe) - 719468;
}
inline std::string fmt_date(long long dd) {
  long long y; unsigned m, d; civil_from_days(dd, y, m, d);
  char b[40]; std::snprintf(b, sizeof b, "%04lld-%02u-%02u", y, m, d); return b;
}
inline std::string fmt_tod(long long ns) {
  bool neg = ns < 0; if (neg) ns = -ns;
  long long s = ns / 1000000000LL, f = ns % 1000000000LL;
  char b[64]; std::snprintf(b, sizeof b, "%s%02lld:%02lld:%02lld.%09lld", neg ? "-" : "", s / 3600, (s / 60) % 60, s % 60, f);
  return b;
}
inline bool parse_date(std::istream& is, long long& dd) {
  long long y; unsigned m, d; char c1, c2;
  if (!(is >> y >> c1 >> m >> c2 >> d) || c1 != '-' || c2 != '-') { is.setstate(std::ios::failbit); return false; }
  // "y" consumed a possible leading '-' sign only; month/day were read as unsigned after '-'
  dd = days_from_civil(y, m, d); return true;
}
inline bool parse_tod(std::istream& is, long long& ns) {
  long long h, mi; char c1, c2; std::string sec;
  if (!(is >> h >> c1 >> mi >> c2) || c1 != ':' || c2 != ':') { is.setstate(std::ios::failbit); return false; }
  long long s = 0, f = 0; int digits = 0; bool frac = false; int c;
  while ((c = is.peek()) != EOF && (std::isdigit(c) || c == '.')) {
    is.get();
    if (c == '.') { frac = true; continue; }
    if (!frac) s = s * 10 + (c - '0'); else if (digits < 9) { f = f * 10 + (c - '0'); digits++; }
  }
  while (digits++ < 9) f *= 10;
  is.clear(is.rdstate() & ~std::ios::failbit);
  ns = ((h * 60 + mi) * 60 + s) * 1000000000LL + f; return true;
}
}  // namespace verif_detail

inline std::string format(const char* f, local_days const& v) {
  (void)f; return verif_detail::fmt_date(v.time_since_epoch().count());
}
template <class Rep, class Period>
inline std::string format(const char* f, std::chrono::duration<Rep, Period> const& v) {
  (void)f; return verif_detail::fmt_tod(std::chrono::duration_cast<std::chrono::nanoseconds>(v).count());
}
template <class Clock, class Duration>
inline std::string format(const char* f, std::chrono::time_point<Clock, Duration> const& v) {
  (void)f;
  long long ns = std::chrono::duration_cast<std::chrono::nanoseconds>(v.time_since_epoch()).count();
  long long dd = ns >= 0 ? ns / 86400000000000LL : -((-ns + 86400000000000LL - 1) / 86400000000000LL);
  long long rem = ns - dd * 86400000000000LL;
  return verif_detail::fmt_date(dd) + "T" + verif_detail::fmt_tod(rem);
}
inline void from_stream(std::istream& is, const char*, local_days& v) {
  long long dd; if (verif_detail::parse_date(is, dd)) v = local_days(days(static_cast<int>(dd)));
}
template <class Rep, class Period>
inline void from_stream(std::istream& is, const char*, std::chrono::duration<Rep, Period>& v) {
  long long ns; if (verif_detail::parse_tod(is, ns)) v = std::chrono::duration_cast<std::chrono::duration<Rep, Period>>(std::chrono::nanoseconds(ns));
}
template <class Clock, class Duration>
inline void from_stream(std::istream& is, const char*, std::chrono::time_point<Clock, Duration>& v) {
  long long dd, ns; char t;
  if (!verif_detail::parse_date(is, dd)) return;
  if (!(is >> t) || t != 'T') { is.setstate(std::ios::failbit); return; }
  if (!verif_detail::parse_tod(is, ns)) return;
  v = std::chrono::time_point<Clock, Duration>(std::chrono::duration_cast<Duration>(std::chrono::nanoseconds(dd * 86400000000000LL + ns)));
}
}  // namespace date

#!/bin/sh
# Offline setup: warm the Go build cache for yardl and the harness. Nothing is kept under /tmp.
set -e
cd "$(dirname "$0")"
exec python3 -c "import sys; sys.path.insert(0,'lib'); import build; build.warm()"

// maprange: finds every `for ... range <map-typed expr>` in non-test code of the yardl tooling module and writes
// overlay copies in which the loop iterates in an order chosen by the verifmo shim:
//
//	for k, v := range m { body }   ==>   for _, k := range verifmo.Keys(<site>, m) { v := m[k]; body }
//
// usage: maprange <tooling dir> <out dir>   -> prints JSON {"sites":[{id,file,line,func}], "overlay":{orig: copy}}
package main

import (
	"bytes"
	"encoding/json"
	"fmt"
	"go/ast"
	"go/printer"
	"go/token"
	"go/types"
	"os"
	"path/filepath"
	"strings"

	"golang.org/x/tools/go/ast/astutil"
	"golang.org/x/tools/go/packages"
)

type site struct {
	ID   int    `json:"id"`
	File string `json:"file"`
	Line int    `json:"line"`
	Func string `json:"func"`
	Key  string `json:"key_type"`
}

func main() {
	dir, out := os.Args[1], os.Args[2]
	cfg := &packages.Config{Mode: packages.NeedName | packages.NeedFiles | packages.NeedSyntax | packages.NeedTypes | packages.NeedTypesInfo | packages.NeedImports | packages.NeedDeps, Dir: dir}
	pkgs, err := packages.Load(cfg, "./...")
	if err != nil {
		fmt.Fprintln(os.Stderr, err)
		os.Exit(2)
	}
	if packages.PrintErrors(pkgs) > 0 {
		os.Exit(2)
	}
	var sites []site
	overlay := map[string]string{}
	os.MkdirAll(out, 0o755)
	for _, pkg := range pkgs {
		for i, f := range pkg.Syntax {
			_ = i
			fname := pkg.Fset.Position(f.Pos()).Filename
			if strings.HasSuffix(fname, "_test.go") || strings.Contains(fname, "verifharness") || strings.Contains(fname, "verif_export") {
				continue
			}
			changed := false
			var curFunc string
			astutil.Apply(f, func(c *astutil.Cursor) bool {
				if fd, ok := c.Node().(*ast.FuncDecl); ok {
					curFunc = fd.Name.Name
				}
				rs, ok := c.Node().(*ast.RangeStmt)
				if !ok {
					return true
				}
				tv, ok := pkg.TypesInfo.Types[rs.X]
				if !ok {
					return true
				}
				mt, ok := tv.Type.Underlying().(*types.Map)
				if !ok {
					return true
				}
				id := len(sites)
				pos := pkg.Fset.Position(rs.Pos())
				sites = append(sites, site{ID: id, File: fname, Line: pos.Line, Func: curFunc, Key: mt.Key().String()})
				// rewrite
				mapExpr := rs.X
				keyIdent := rs.Key
				if keyIdent == nil || isBlank(keyIdent) {
					keyIdent = ast.NewIdent(fmt.Sprintf("verifmoK%d", id))
				}
				var prelude []ast.Stmt
				if rs.Value != nil && !isBlank(rs.Value) {
					prelude = append(prelude, &ast.AssignStmt{Lhs: []ast.Expr{rs.Value}, Tok: rs.Tok, Rhs: []ast.Expr{&ast.IndexExpr{X: mapExpr, Index: keyIdent}}})
					if rs.Tok == token.DEFINE {
						// avoid "declared and not used"
						prelude = append(prelude, &ast.AssignStmt{Lhs: []ast.Expr{ast.NewIdent("_")}, Tok: token.ASSIGN, Rhs: []ast.Expr{rs.Value}})
					}
				}
				if rs.Key == nil || isBlank(rs.Key) {
					prelude = append([]ast.Stmt{&ast.AssignStmt{Lhs: []ast.Expr{ast.NewIdent("_")}, Tok: token.ASSIGN, Rhs: []ast.Expr{keyIdent}}}, prelude...)
				}
				newRange := &ast.RangeStmt{
					Key: ast.NewIdent("_"), Value: keyIdent, Tok: token.DEFINE,
					X: &ast.CallExpr{Fun: &ast.SelectorExpr{X: ast.NewIdent("verifmo"), Sel: ast.NewIdent("Keys")},
						Args: []ast.Expr{&ast.BasicLit{Kind: token.INT, Value: fmt.Sprint(id)}, mapExpr}},
					// the original body keeps its own block so that it may redeclare the loop variables
					Body: &ast.BlockStmt{List: append(prelude, rs.Body)},
				}
				if rs.Tok == token.ASSIGN && rs.Key != nil && !isBlank(rs.Key) {
					// for k = range m: keep assignment semantics
					newRange.Value = ast.NewIdent(fmt.Sprintf("verifmoK%d", id))
					newRange.Body.List = append([]ast.Stmt{&ast.AssignStmt{Lhs: []ast.Expr{rs.Key}, Tok: token.ASSIGN, Rhs: []ast.Expr{newRange.Value}}}, newRange.Body.List...)
				}
				c.Replace(newRange)
				changed = true
				return true
			}, nil)
			if changed {
				astutil.AddImport(pkg.Fset, f, "github.com/microsoft/yardl/tooling/internal/verifmo")
				var buf bytes.Buffer
				if err := printer.Fprint(&buf, pkg.Fset, f); err != nil {
					fmt.Fprintln(os.Stderr, err)
					os.Exit(2)
				}
				rel, _ := filepath.Rel(dir, fname)
				dst := filepath.Join(out, strings.ReplaceAll(rel, "/", "__"))
				os.WriteFile(dst, buf.Bytes(), 0o644)
				overlay[fname] = dst
			}
		}
	}
	json.NewEncoder(os.Stdout).Encode(map[string]any{"sites": sites, "overlay": overlay})
}

func isBlank(e ast.Expr) bool {
	id, ok := e.(*ast.Ident)
	return ok && id.Name == "_"
}

"""Canonical enumerators of type shapes and packing of shapes into yardl packages."""
import itertools

import am
from am import P, N, TP, Opt, Union, Vec, Arr, Map, Stream, Record, Enum, Alias, Protocol, Package

IMP_NS = "Imp"
MAP_KEY_PRIMS = ["string", "int32", "uint8", "int64", "uint64", "bool", "int8", "size"]


def imported_package():
    return Package(IMP_NS, defs=[
        Record("IR", [("p", P("uint16")), ("q", P("string"))]),
        Enum("IE", [("ia", 0), ("ib", 5)]),
        Alias("IV", Vec(P("float64"))),
        Record("IG", [("t", TP("T")), ("n", P("int64"))], tparams=("T",)),
    ], dirname="imp")


def leaf_defs():
    """Named leaf definitions instantiated once per package."""
    return [
        Enum("E", [("a", 0), ("b", 1), ("c", 2)]),
        Enum("E8", [("x", 1), ("y", 200)], base="uint8"),
        Enum("E64", [("neg", -5), ("zero", 0), ("big", 2**40)], base="int64"),
        Enum("F", [("f1", 1), ("f2", 2), ("f4", 4)], flags=True),
        Enum("F64", [("lo", 1), ("hi", 2**63)], base="uint64", flags=True),
        Record("RT", [("a", P("int8")), ("b", P("float32"))]),
        Record("RT2", [("a", P("uint8")), ("b", P("bool")), ("c", P("float64")), ("d", P("complexfloat32"))]),
        Record("RT3", [("c", P("float64")), ("a", P("uint8"))]),      # fixed-width fields with trailing padding in C++
        Record("RS", [("s", P("string")), ("o", Opt(P("int32"))), ("v", Vec(P("int32")))]),
        Alias("AP", P("uint32")),
        Alias("AC", Vec(P("int16"))),
        Alias("AO", Opt(P("string"))),
        Record("G", [("t", TP("T")), ("ot", Opt(TP("T")))], tparams=("T",)),
        Alias("GA", Vec(TP("T")), tparams=("T",)),
        Record("G1", [("t", TP("T")), ("n", P("int32"))], tparams=("T",)),
        Record("G2", [("u", Union(("t", TP("T")), ("u", TP("U")))), ("m", Map(P("string"), TP("T")))], tparams=("T", "U")),
        Alias("GU", Union(TP("T"), P("string")), tparams=("T",)),
        Alias("GN", Union(None, TP("T"), P("float32")), tparams=("T",)),
        # a union whose JSON datatypes depend on a type argument that is not itself a case: a map keyed by the parameter is an object
        # for string keys and an array of pairs otherwise
        Record("GK", [("u", Union(("m", Map(TP("K"), P("int32"))), ("r", N("RS")))), ("w", Union(("m", Map(TP("K"), P("bool"))), ("v", Vec(P("int32")))))], tparams=("K",)),
    ]


def leaves(level=1):
    out = [P(p) for p in am.PRIMS]
    out += [N("E"), N("E8"), N("E64"), N("F"), N("F64"), N("RT"), N("RT2"), N("RT3"), N("G1", P("float64")), N("RS"), N("AP"), N("AC"), N("AO"),
            N(IMP_NS + ".IR"), N(IMP_NS + ".IE"), N(IMP_NS + ".IV"), N(IMP_NS + ".IG", P("int32")),
            N("G", P("int32")), N("G", N("E")), N("GA", P("string")), N("G2", P("uint16"), N("RT2")),
            N("G2", P("string"), N("RT2")), N("G2", P("string"), N("RT")), N("GU", P("int32")), N("GU", N("E")), N("GU", P("date")),
            N("GN", P("float64")), N("GN", N("RT"))]
    return out


def tag_of(t, i):
    """Natural tag for simple types; for anything else a tag that is a function of the type (yardl requires that a
    given combination of tags is not reused with different types anywhere in a package)."""
    import hashlib
    d = am.default_tag(t)
    if d is not None and "." not in (t[1] if t[0] == "named" else ""):
        return d
    return "c" + hashlib.sha1(repr(t).encode()).hexdigest()[:7]


def mk_union(cases, null=False):
    """Union with explicit natural tags (prim/named: derived name; others: c<i>)."""
    cs = [(tag_of(c, i), c) for i, c in enumerate(cases)]
    tags = [t for t, _ in cs]
    assert len(set(tags)) == len(tags), tags
    all_default = all(am.default_tag(c) is not None and tg == am.default_tag(c) for tg, c in cs)
    if all_default:
        return ("union", tuple(([(None, None)] if null else []) + [(None, c) for _, c in cs]))
    # explicit tags must be camelCased
    cs = [(tg[0].lower() + tg[1:], c) for tg, c in cs]
    return ("union", tuple(([(None, None)] if null else []) + cs))


def union_case_set():
    """Case set for 2-case unions: every JSON-kind class with every representative type."""
    # `size` is left out: unions differing only in uint64 vs size map to the same std::variant in C++ (see C08)
    return [P(p) for p in am.PRIMS if p != "size"] + [N("E"), N("E8"), N("F"), N("RT"), N("RS"), N("AC"), N(IMP_NS + ".IR"),
                                        N("G", P("int32")), Vec(P("int32")), Vec(P("string"), 2), Arr(P("int32"), [2, 2]),
                                        Arr(P("float32"), 2), Arr(P("int32"), None), Map(P("string"), P("int32")),
                                        Map(P("int32"), P("string"))]


def kind_representatives():
    return [P("bool"), P("int32"), P("float64"), P("string"), P("date"), P("complexfloat32"), N("E"), N("F"), N("RT"),
            Vec(P("int32")), Arr(P("int32"), None), Map(P("string"), P("int32")), Map(P("int32"), P("int32"))]


def constructors(x, full=True):
    """All single-constructor applications to x (excluding unions and streams)."""
    out = [Opt(x), Vec(x), Vec(x, 1), Vec(x, 3), Arr(x, [2]), Arr(x, [2, 3]), Arr(x, 1), Arr(x, 2),
           Arr(x, (("p", None), ("q", None))), Arr(x, (("p", 2), ("q", 1))), Arr(x, None),
           Map(P("string"), x), Map(P("int32"), x)]
    return out


def is_optlike(t):
    """Optional or nullable union, also behind the leaf aliases/generics that are (or contain at top level) one."""
    if t[0] == "named":
        return t[1] in ("GN", "AO")
    return t[0] == "opt" or (t[0] == "union" and t[1][0][1] is None)


def valid_inner(t):
    return True


def fixed_item_arrays():
    """Arrays / vectors whose items are fixed-size vectors or arrays of numbers (own code path in every backend)."""
    out = []
    for inner in (Vec(P("float32"), 3), Vec(P("int16"), 2), Arr(P("uint8"), [2, 2])):
        for c in (Arr(inner, None), Arr(inner, 2), Arr(inner, [2]), Arr(inner, (("p", None), ("q", None))), Vec(inner), Vec(inner, 2)):
            out.append(c)
    return out


def optional_item_arrays():
    """Arrays whose items are optionals of fixed-width numbers (every item carries its own presence flag on the wire)."""
    out = []
    for inner in (P("float32"), P("float64"), P("uint8"), P("int32"), P("complexfloat32")):
        for c in (Arr(Opt(inner), None), Arr(Opt(inner), 2), Arr(Opt(inner), [2])):
            out.append(c)
    return out


def shapes(depth, tier="quick"):
    """Ordered list of distinct shapes with <= depth nested constructors (simplest first)."""
    L = leaves()
    out = list(L)
    seen = set(out)

    def add(t):
        if t not in seen:
            seen.add(t)
            out.append(t)

    level = list(L)
    for d in range(1, depth + 1):
        nxt = []
        if d == 1:
            base = level
        else:
            # depth >= 2: constructors over a representative subset of the previous level (one per constructor x kind)
            base = [t for t in level if t[0] != "prim" or t[1] in ("int32", "string", "bool", "float32")]
            if tier == "quick":
                base = base[::7]
        for x in base:
            for c in constructors(x):
                if c[0] == "opt" and (is_optlike(x) or x[0] == "union"):
                    continue  # T?? is not expressible; [A, B]? is a union in a union, which yardl rejects by rule
                add(c)
                nxt.append(c)
        if d == 1:
            for k in MAP_KEY_PRIMS:
                add(Map(P(k), P("int32")))
                add(Map(P(k), N("RS")))
            cs = union_case_set()
            pairs = [(i, j) for i, j in itertools.combinations(range(len(cs)), 2)
                     if {cs[i], cs[j]} != {P("uint64"), P("size")}]  # yardl: "uint64 and size are equivalent"
            for i, j in pairs:
                add(mk_union([cs[i], cs[j]]))
                nxt.append(mk_union([cs[i], cs[j]]))
            for i, j in pairs:
                if (i + j) % (3 if tier == "quick" else 1) == 0:
                    add(mk_union([cs[j], cs[i]], null=True))
            # arrays whose items are fixed-size vectors / arrays of numbers (a depth-2 family with its own code path in every backend)
            for c in fixed_item_arrays():
                add(c)
            for c in optional_item_arrays():
                add(c)
            reps = kind_representatives()
            for tri in itertools.combinations(reps, 3):
                add(mk_union(list(tri)))
            for tri in itertools.combinations(reps[:8], 3):
                add(mk_union(list(tri)[::-1], null=True))
        level = nxt
    return out


def has_vector_of_bool(t, as_stream_item=False):
    """True when the generated C++ would use std::vector<bool> (bool* anywhere, or bool as a stream item)."""
    if as_stream_item and t == ("prim", "bool"):
        return True
    k = t[0]
    if k == "vec" and t[2] is None and t[1] == ("prim", "bool"):
        return True
    if k in ("opt", "vec", "arr", "stream"):
        return has_vector_of_bool(t[1])
    if k == "union":
        return any(c is not None and has_vector_of_bool(c) for _, c in t[1])
    if k == "map":
        return has_vector_of_bool(t[1]) or has_vector_of_bool(t[2])
    if k == "named":
        return any(has_vector_of_bool(a) for a in t[2]) or (t[1] == "GA" and t[2][0] == ("prim", "bool"))
    return False


def ns_name(prefix, i):
    return prefix + chr(ord("a") + i // 26) + chr(ord("a") + i % 26)


# ------------------------------------------------------------------ packing
SCALAR_NAMED = {"E", "E8", "E64", "F", "F64", "AP", IMP_NS + ".IE"}


def quarantine_class(t):
    """Shape classes with confirmed defects (see known_findings.txt) are packed into their own protocols (PQ<class>*) so
    that their failures cannot mask or contaminate other shapes:
      a = Python: array (fixed / n-dim / dynamic) whose element is not a number/bool/string/enum (records, vectors,
          maps, dates, generics ...)
      c = NDJSON: unions declared over a type parameter (GU, GN, G2): C++ decides tagged/untagged per closed
          instantiation, Python once at the generic definition, so the two languages cannot read each other
      b = C++ NDJSON: a generic union instantiation (G2<string, RT>) whose std::variant type is also produced by a
          concrete union ([string, RT]) elsewhere in the package"""
    def scalar(x):
        return (x[0] == "prim" and x[1] not in ("date", "time", "datetime")) or (x[0] == "named" and x[1] in SCALAR_NAMED)

    def fixed_of_scalars(x):
        """Fixed-length vector / fixed-shape array of numbers: stored as a numpy sub-array dtype, which works."""
        if x[0] == "vec":
            return x[2] is not None and scalar(x[1]) and x[1][0] == "prim" and x[1][1] != "string"
        if x[0] == "arr":
            d = x[2]
            return isinstance(d, tuple) and all(l is not None for _, l in d) and scalar(x[1]) and x[1][0] == "prim" and x[1][1] != "string"
        return False

    def has_bad_array(x):
        if x is None:
            return False
        k = x[0]
        if k == "arr":
            # optionals of fixed-width numbers as items work in both languages (every item has its own presence flag)
            opt_num = x[1][0] == "opt" and x[1][1][0] == "prim" and x[1][1][1] not in ("string", "date", "time", "datetime", "bool")
            return not (scalar(x[1]) or fixed_of_scalars(x[1]) or opt_num) or has_bad_array(x[1])
        if k in ("opt", "vec", "stream"):
            return has_bad_array(x[1])
        if k == "map":
            return has_bad_array(x[1]) or has_bad_array(x[2])
        if k == "union":
            return any(has_bad_array(c) for _, c in x[1])
        if k == "named":
            return any(has_bad_array(a) for a in x[2])
        return False

    def has_coll(x):
        if x is None:
            return False
        if x == N("G2", P("string"), N("RT")):
            return True
        k = x[0]
        if k in ("opt", "vec", "stream", "arr"):
            return has_coll(x[1])
        if k == "map":
            return has_coll(x[1]) or has_coll(x[2])
        if k == "union":
            return any(has_coll(c) for _, c in x[1])
        if k == "named":
            return any(has_coll(a) for a in x[2])
        return False

    def has_generic_union(x):
        if x is None:
            return False
        k = x[0]
        if k == "named":
            return x[1] in ("G2", "GU", "GN", "GK") or any(has_generic_union(a) for a in x[2])
        if k in ("opt", "vec", "stream", "arr"):
            return has_generic_union(x[1])
        if k == "map":
            return has_generic_union(x[1]) or has_generic_union(x[2])
        if k == "union":
            return any(has_generic_union(c) for _, c in x[1])
        return False

    if has_generic_union(t):
        return "c"
    if has_bad_array(t):
        return "a"
    return None


def pack(shape_list, namespace, per_protocol=25, per_package=100, with_records=True, skip_vector_bool=True, quarantine=True):
    """Packs shapes into packages. Each shape i becomes, in protocol P<k>:  step v<i>: shape ; step s<i>: !stream shape.
    Returns list of (Package, index) where index = list of (shape, protocol name, value step name, stream step name)."""
    pkgs = []
    imp = imported_package()
    def _has_date(t):
        if t is None:
            return False
        if t[0] == "prim":
            return t[1] in ("date", "time", "datetime")
        if t[0] == "named":
            return t == N("GU", P("date")) or any(_has_date(a) for a in t[2])
        if t[0] == "union":
            return any(_has_date(c) for _, c in t[1])
        if t[0] == "map":
            return _has_date(t[1]) or _has_date(t[2])
        if t[0] in ("opt", "vec", "arr", "stream"):
            return _has_date(t[1])
        return False

    for pi in range(0, len(shape_list), per_package):
        chunk = shape_list[pi:pi + per_package]
        # date-bearing shapes go to their own protocols (PD*): their NDJSON text is not compared across languages
        ns = ns_name(namespace, pi // per_package)
        protos, index = [], []
        buckets = {}
        for sh_ in chunk:
            q = quarantine_class(sh_) if quarantine else None
            prefix = ("PQ" + q) if q else ("PD" if _has_date(sh_) else "P")
            buckets.setdefault(prefix, []).append(sh_)
        groups, off = [], 0
        for prefix in sorted(buckets):
            groups.append((prefix, buckets[prefix], off))
            off += len(buckets[prefix])
        chunk = [s_ for _, g, _ in groups for s_ in g]
        for prefix, grp, off in groups:
            for qi in range(0, len(grp), per_protocol):
                steps = []
                pname = "%s%d" % (prefix, qi // per_protocol)
                for si, sh in enumerate(grp[qi:qi + per_protocol]):
                    gi = off + qi + si
                    steps.append(("v%d" % gi, sh))
                    sname = None
                    if not (skip_vector_bool and has_vector_of_bool(sh, as_stream_item=True)):
                        sname = "s%d" % gi
                        steps.append((sname, Stream(sh)))
                    index.append((sh, pname, "v%d" % gi, sname))
                protos.append(Protocol(pname, steps))
        defs = leaf_defs()
        if with_records:
            # each shape also as a record field (10 per record) and as a generic argument
            for prefix, grp, off in groups:
                recs = []
                for ri in range(0, len(grp), 10):
                    fields = [("f%d" % (off + ri + j), sh) for j, sh in enumerate(grp[ri:ri + 10])]
                    recs.append(Record("W%s%d" % (prefix[1:].upper(), ri // 10), fields))
                defs += recs
                rsteps = []
                for r in recs:
                    rsteps.append(("r" + r.name.lower(), N(r.name)))
                    rsteps.append(("q" + r.name.lower(), Stream(N(r.name))))
                for ri in range(0, len(rsteps), 50):
                    protos.append(Protocol("%sR%d" % (prefix, ri // 50), rsteps[ri:ri + 50]))
                gsteps = []
                for gi, sh in enumerate(grp):
                    gsteps.append(("g%d" % (off + gi), N("G", sh) if (sh[0] not in ("opt", "union") and not is_optlike(sh)) else N("G1", sh)))
                for gi in range(0, len(gsteps), 50):
                    protos.append(Protocol("%sG%d" % (prefix, gi // 50), gsteps[gi:gi + 50]))
        pkg = Package(ns, defs=defs, protocols=protos, imports=[imp], dirname=ns.lower())
        pkgs.append((pkg, index))
    return pkgs


# ------------------------------------------------------------------ a protocol whose schema text is longer than the 64 KiB buffers
def bigschema_package(namespace="Big"):
    """One protocol over 32 records of 25 fields with 60-character names: the embedded schema is > 65536 bytes, so the header
    itself straddles the writers' and readers' staging buffers."""
    defs, steps = [], []
    for r in range(32):
        fields = [("f%02dx%02d" % (r, f) + "q" * 54, P("int32") if f % 3 else P("string")) for f in range(25)]
        defs.append(Record("BigRecord%02d" % r, fields))
        steps.append(("r%02d" % r, N("BigRecord%02d" % r) if r % 4 else Stream(N("BigRecord%02d" % r))))
    return Package(namespace, defs=defs, protocols=[Protocol("PBig", steps)], dirname=namespace.lower())


# ------------------------------------------------------------------ step-pattern package (adjacent / empty streams)
def pattern_package(maxlen=4, namespace="Pat"):
    """All protocols over {N = non-stream int32 step, S = stream of int32, R = stream of RS records} of length <= maxlen
    (N/S only beyond length 3), so that every adjacency of empty / non-empty streams and scalars occurs."""
    pats = []
    for n in range(1, maxlen + 1):
        alpha = "NSR" if n <= 3 else "NS"
        for pat in itertools.product(alpha, repeat=n):
            if "S" in pat or "R" in pat:
                pats.append("".join(pat))
    protos = []
    for pat in pats:
        steps = []
        for i, c in enumerate(pat):
            steps.append(("s%d" % i, P("int32") if c == "N" else Stream(P("int32")) if c == "S" else Stream(N("RS"))))
        protos.append(Protocol("Q" + pat.lower(), steps))
    return Package(namespace, defs=[d for d in leaf_defs() if d.name == "RS"], protocols=protos, dirname=namespace.lower()), pats


def pattern_executions(pat):
    """Every assignment of stream lengths in {0, 1, 3} to the stream steps, with single-block and one-item-block partitions."""
    lens = [(0, 1, 3) if c != "N" else (None,) for c in pat]
    out = []
    for combo in itertools.product(*lens):
        vals, parts = [], {}
        for i, (c, n) in enumerate(zip(pat, combo)):
            if c == "N":
                vals.append(7 + i)
            elif c == "S":
                vals.append([10 * (i + 1) + j for j in range(n)])
            else:
                vals.append([["s%d" % j, (j if j % 2 else None), [j] * j] for j in range(n)])
            if c != "N" and n == 3:
                parts[i] = [1, 2]
        out.append((vals, parts))
    return out


# ------------------------------------------------------------------ buffer family (64 KiB staging buffers)
BUF = 65536


def buffer_package(namespace="Buf"):
    """Protocols `pad: string; v: T; tail: !stream T; last: int32` for every codec path T, and long-stream protocols."""
    types = [("u8", P("uint8")), ("i32", P("int32")), ("i64", P("int64")), ("u64", P("uint64")), ("f32", P("float32")), ("f64", P("float64")),
             ("c64", P("complexfloat64")), ("str", P("string")), ("dt", P("datetime")), ("e", N("E64")), ("rt", N("RT")),
             ("rt3", N("RT3")), ("rs", N("RS")), ("vf32", Vec(P("float32"))), ("vi32", Vec(P("int32"))), ("vrt3", Vec(N("RT3"))),
             ("fv", Vec(P("float64"), 3)), ("fa", Arr(P("float32"), [2, 3])), ("na", Arr(P("int16"), 2)), ("da", Arr(P("float64"), None)),
             ("opt", Opt(P("int64"))), ("un", Union(P("int32"), P("string"))), ("m", Map(P("string"), P("int32"))), ("g", N("G1", P("float64")))]
    protos = []
    for name, t in types:
        protos.append(Protocol("B" + name, [("pad", P("string")), ("v", t), ("tail", Stream(t)), ("last", P("int32"))]))
    longs = [("lf64", P("float64")), ("lvf32", Vec(P("float32"))), ("lrt3", N("RT3")), ("lfa", Arr(P("float32"), [2, 3])), ("lstr", P("string")),
             ("lrs", N("RS")), ("lna", Arr(P("float32"), 1)), ("li32", P("int32"))]
    for name, t in longs:
        protos.append(Protocol("L" + name, [("head", t), ("items", Stream(t)), ("big", Vec(t)), ("last", P("int32"))]))
    defs = [d for d in leaf_defs() if d.name in ("E64", "RT", "RT3", "RS", "G1")]
    return Package(namespace, defs=defs, protocols=protos, dirname=namespace.lower()), types, longs


# ------------------------------------------------------------------ varint boundary family
def varint_package(namespace="Vib"):
    """One protocol per variable-length integer type (`v: T; items: !stream T; vec: T*; last: int32`) and one for the length
    prefixes of strings, vectors, maps and dynamic arrays."""
    ints = ["int16", "uint16", "int32", "uint32", "int64", "uint64", "size"]
    protos = [Protocol("V" + t, [("v", P(t)), ("items", Stream(P(t))), ("vec", Vec(P(t))), ("last", P("int32"))]) for t in ints]
    protos.append(Protocol("Vtime", [("t", P("time")), ("d", P("date")), ("dt", P("datetime")), ("ts", Stream(P("time"))), ("last", P("int32"))]))
    protos.append(Protocol("Vlen", [("s", P("string")), ("b", Vec(P("uint8"))), ("m", Map(P("uint16"), P("uint8"))), ("a", Arr(P("uint8"), 1)),
                                    ("d", Arr(P("int8"), None)), ("strs", Stream(P("string"))), ("last", P("int32"))]))
    return Package(namespace, defs=[], protocols=protos, dirname=namespace.lower())


def varint_executions(pkg):
    """{protocol: [(vals, parts)]}: every value at which the encoding of a variable-length integer changes length (2^(7k) - 1,
    2^(7k), and the zig-zag images of both signs), and every length prefix around 2^7 and 2^14."""
    out = {}
    for pr in pkg.protocols:
        name = pr.name
        if name in ("Vtime", "Vlen"):
            continue
        t = pr.steps[0][1][1]
        lo, hi = am.INT_RANGE[t]
        cand = set()
        for k in range(1, 10):
            for d in (-1, 0, 1):
                u = (1 << (7 * k)) + d
                cand |= {u, u // 2, -(u // 2), -(u // 2) - 1, (u + 1) // 2}
        vs = sorted(v for v in cand | {0, 1, -1, lo, hi, hi - 1, lo + 1} if lo <= v <= hi)
        out[name] = [([v, vs, vs[::2], 5], {1: [len(vs)]}) for v in vs[:: max(1, len(vs) // 24)]] + [([vs[-1], vs, vs, 5], {1: [1] * len(vs)})]
    day = 86400 * 10**9
    tv = sorted({0, 63, 64, 8191, 8192, 8193, 2**20, 2**20 - 1, 2**27, 2**34 - 1, 2**34, 2**41, day - 1})
    dv = sorted({0, 63, 64, -64, -65, 8191, 8192, -8192, -8193, 2**20, 2**20 - 1, -(2**19), -(2**19) - 1})
    dtv = [0, 63, 64, -64, -65, 8191, 8192, -8192, -8193, 2**34 - 1, 2**34, -(2**41), -(2**41) - 1, 2**55, 2**62 - 1, -(2**62), 2**62]
    out["Vtime"] = [([t_, d_, x_, tv, 5], {3: [len(tv)]}) for t_, d_, x_ in zip(tv + tv, dv + dv, dtv)]
    lens = [0, 1, 127, 128, 129, 16383, 16384, 16385]
    ex = []
    for n in lens:
        ex.append((["x" * n, [i % 251 for i in range(n)], [(i, i % 7) for i in range(min(n, 300))], ((n,), [i % 200 for i in range(n)]),
                    ((n, 1) if n else (0, 3), [(i % 100) - 50 for i in range(n)]), ["y" * n, "", "z" * (n // 2)], 5], {5: [3]}))
    out["Vlen"] = ex
    return out

"""Generation + compilation of generated C++ with a generic in-process translator driver."""
import os, re, subprocess, select, tempfile, hashlib
from concurrent.futures import ThreadPoolExecutor

import build, am

SHIMS = os.path.join(build.VERIF, "shims", "cpp")


def inc_dir():
    d = os.path.join(build.scratch(), "inc")
    if not os.path.isdir(d):
        os.makedirs(d, exist_ok=True)
        for cand in ("/root/miniconda/include/nlohmann", "/usr/include/nlohmann"):
            if os.path.isdir(cand):
                try:
                    os.symlink(cand, os.path.join(d, "nlohmann"))
                except FileExistsError:
                    pass
                break
        else:
            raise build.HarnessError("nlohmann/json headers not found")
    return d


def cpp_name(step):
    """Step name -> PascalCase as the generator does for simple names used by the packer (v12 -> V12)."""
    return step[0].upper() + step[1:]


def cpp_namespace(cppdir):
    m = re.search(r"^namespace ([\w:]+) \{", open(os.path.join(cppdir, "protocols.h")).read(), re.M)
    return m.group(1)


def step_cpp_types(cppdir):
    """{(protocol, StepName): C++ type text} parsed from the generated protocols.h (`void Write<Step>(<T> const& value);`)."""
    txt = open(os.path.join(cppdir, "protocols.h")).read()
    out = {}
    for cm in re.finditer(r"class (\w+)WriterBase \{(.*?)\n\};", txt, re.S):
        for m in re.finditer(r"^\s*void Write(\w+)\((.+) const& value\);$", cm.group(2), re.M):
            out[(cm.group(1), m.group(1))] = m.group(2)
    return out


def manual_copy_source(pkg, ns, types, with_ndjson=True):
    """Per protocol a hand-written copy loop (binary -> binary) that reads stream steps into pre-sized vectors ("pzb": the
    vector has size == capacity == c on entry, as `std::vector<T> batch(n)` gives) or into a fresh object per item ("frb")."""
    out = []
    for p in pkg.protocols:
        # "ebb" / "ebn": every item is read into memory first, then written through the batch overload in batches of c items with
        # an empty batch before the first, after every batch and after the last one ("a producer that flushes whatever it has")
        out.append("template <class W> static void manual_eb_%s(std::istream& in, W& w, size_t c) {" % p.name)
        out.append("  %s::binary::%sReader r(in);" % (ns, p.name))
        for sn, st in p.steps:
            cn = cpp_name(sn)
            T = types[(p.name, cn)]
            if st[0] == "stream":
                out.append("  { std::vector<%s> all; while (true) { %s v{}; if (!r.Read%s(v)) break; all.push_back(std::move(v)); }" % (T, T, cn))
                out.append("    std::vector<%s> none; w.Write%s(none); size_t i = 0;" % (T, cn))
                out.append("    while (i < all.size()) { size_t n = std::min(c, all.size() - i); std::vector<%s> b(all.begin() + i, all.begin() + i + n); w.Write%s(b); w.Write%s(none); i += n; }" % (T, cn, cn))
                out.append("    w.End%s(); }" % cn)
            else:
                out.append("  { %s v{}; r.Read%s(v); w.Write%s(v); }" % (T, cn, cn))
        out.append("  r.Close(); w.Close();")
        out.append("}")
        out.append("static void manual_%s(const std::string& mode, std::istream& in, std::ostream& out, size_t c) {" % p.name)
        out.append('  if (mode == "ebb") { %s::binary::%sWriter w(out); manual_eb_%s(in, w, c); return; }' % (ns, p.name, p.name))
        if with_ndjson:
            out.append('  if (mode == "ebn") { %s::ndjson::%sWriter w(out); manual_eb_%s(in, w, c); return; }' % (ns, p.name, p.name))
        out.append("  %s::binary::%sReader r(in); %s::binary::%sWriter w(out);" % (ns, p.name, ns, p.name))
        for sn, st in p.steps:
            cn = cpp_name(sn)
            T = types[(p.name, cn)]
            if st[0] == "stream":
                out.append("  if (mode == \"pzb\") { std::vector<%s> vs(c); while (r.Read%s(vs)) { w.Write%s(vs); } w.End%s(); }" % (T, cn, cn, cn))
                out.append("  else { while (true) { %s v{}; if (!r.Read%s(v)) break; w.Write%s(v); } w.End%s(); }" % (T, cn, cn, cn))
            else:
                out.append("  { %s v{}; r.Read%s(v); w.Write%s(v); }" % (T, cn, cn))
        out.append("  r.Close(); w.Close();")
        out.append("}")
    return "\n".join(out)


def driver_source(pkg, with_ndjson=True, extra="", ns=None, manual_types=None):
    ns = ns or pkg.namespace.lower()
    out = ['#include "binary/protocols.h"']
    if with_ndjson:
        out.append('#include "ndjson/protocols.h"')
    out += ["#include <iostream>", "#include <sstream>", "#include <string>", "#include <functional>", "#include <map>",
            "#include <vector>", "#include <cstdio>", "#include <cstring>", ""]
    if manual_types:
        out.append(manual_copy_source(pkg, ns, manual_types, with_ndjson))
        out.append("#include <algorithm>")
    out.append("using Fn = std::function<void(const std::string&, std::istream&, std::ostream&, size_t)>;")
    out.append("static std::map<std::string, Fn> table;")
    for p in pkg.protocols:
        nstream = sum(1 for _, t in p.steps if t[0] == "stream")
        args = "".join(", bs" for _ in range(nstream))
        out.append("static void run_%s(const std::string& mode, std::istream& in, std::ostream& out, size_t bs) {" % p.name)
        out.append("  (void)bs;")
        if manual_types:
            out.append('  if (mode == "pzb" || mode == "frb" || mode == "ebb" || mode == "ebn") { manual_%s(mode, in, out, bs); return; }' % p.name)
        out.append('  if (mode == "b2b") { %s::binary::%sReader r(in); %s::binary::%sWriter w(out); r.CopyTo(w%s); r.Close(); w.Close(); }' % (ns, p.name, ns, p.name, args))
        for lbl, oldpkg in getattr(pkg, "versions", []):
            if any(op.name == p.name for op in oldpkg.protocols):
                # read a stream of any known version, write it for the listed previous version
                out.append('  else if (mode == "b2b@%s") { %s::binary::%sReader r(in); %s::binary::%sWriter w(out, %s::Version::%s); r.CopyTo(w%s); r.Close(); w.Close(); }' % (
                    lbl, ns, p.name, ns, p.name, ns, lbl, args))
        if with_ndjson:
            out.append('  else if (mode == "b2n") { %s::binary::%sReader r(in); %s::ndjson::%sWriter w(out); r.CopyTo(w%s); r.Close(); w.Close(); }' % (ns, p.name, ns, p.name, args))
            out.append('  else if (mode == "n2b") { %s::ndjson::%sReader r(in); %s::binary::%sWriter w(out); r.CopyTo(w%s); r.Close(); w.Close(); }' % (ns, p.name, ns, p.name, args))
            out.append('  else if (mode == "n2n") { %s::ndjson::%sReader r(in); %s::ndjson::%sWriter w(out); r.CopyTo(w%s); r.Close(); w.Close(); }' % (ns, p.name, ns, p.name, args))
        out.append('  else throw std::runtime_error("bad mode");')
        out.append("}")
    out.append(extra)
    out.append(r'''
int main() {
''' + "\n".join('  table["%s"] = run_%s;' % (p.name, p.name) for p in pkg.protocols) + r'''
  std::string line;
  while (std::getline(std::cin, line)) {
    char proto[256], mode[16]; unsigned long bs, n;
    if (sscanf(line.c_str(), "%255s %15s %lu %lu", proto, mode, &bs, &n) != 4) break;
    std::string data(n, '\0');
    std::cin.read(data.data(), n);
    std::istringstream in(data);
    std::ostringstream out;
    std::string err; bool ok = true;
    try {
      auto it = table.find(proto);
      if (it == table.end()) throw std::runtime_error("unknown protocol");
      it->second(mode, in, out, bs);
    } catch (std::exception const& e) { ok = false; err = e.what(); if (err.empty()) err = "exception"; }
    catch (...) { ok = false; err = "unknown exception"; }
    std::string o = out.str();
    printf("%s %zu %zu\n", ok ? "OK" : "ERR", o.size(), err.size());
    fwrite(o.data(), 1, o.size(), stdout);
    fwrite(err.data(), 1, err.size(), stdout);
    fflush(stdout);
  }
  return 0;
}
''')
    return "\n".join(out)


def generate(pkg, root, targets=("cpp", "python"), cpp_opts=None):
    """Writes pkg (and imports/versions) under root and runs `yardl generate`. Returns (rc, stderr, outdir)."""
    build.write_tree(root, am.package_files(pkg, targets=targets, cpp_opts=cpp_opts))
    rc, out, err = build.yardl(["generate"], cwd=os.path.join(root, pkg.dirname))
    return rc, err, os.path.join(root, "out_" + pkg.dirname)


_pool = None


def pool():
    global _pool
    if _pool is None:
        _pool = ThreadPoolExecutor(build.NCPU)
    return _pool


def compile_objects(cppdir, sources, flags, tag=""):
    """Compile sources (paths relative to cppdir or absolute) in parallel. Returns (ok, objs, errors{src: text})."""
    inc = inc_dir()
    jobs = []
    for src in sources:
        sp = src if os.path.isabs(src) else os.path.join(cppdir, src)
        obj = os.path.join(cppdir, "obj%s_%s.o" % (tag, re.sub(r"[^A-Za-z0-9]", "_", os.path.relpath(sp, cppdir))))
        cmd = ["g++", "-std=c++17", "-w"] + flags + ["-I", SHIMS, "-I", inc, "-I", cppdir, "-c", sp, "-o", obj]
        jobs.append((src, obj, pool().submit(build.run, cmd, cppdir, None, None, 1800)))
    objs, errors = [], {}
    for src, obj, fut in jobs:
        p = fut.result()
        if p.returncode != 0:
            errors[src] = p.stderr.decode(errors="replace")[:6000]
        objs.append(obj)
    return not errors, objs, errors


def build_driver(pkg, cppdir, flags=("-O0",), with_ndjson=True, extra_main="", tag="", manual=False):
    """Returns (driver path | None, errors)."""
    main = os.path.join(cppdir, "verif_main%s.cc" % tag)
    with open(main, "w") as f:
        f.write(driver_source(pkg, with_ndjson, extra_main, cpp_namespace(cppdir), step_cpp_types(cppdir) if manual else None))
    srcs = ["types.cc", "protocols.cc", "binary/protocols.cc"] + (["ndjson/protocols.cc"] if with_ndjson else []) + [main]
    ok, objs, errors = compile_objects(cppdir, srcs, list(flags), tag)
    if not ok:
        return None, errors
    exe = os.path.join(cppdir, "driver" + tag)
    # objects are linked in the reverse of the order CMakeLists.txt lists the sources (types.o last): static objects of the generated
    # code must not depend on the initialisation order of translation units, which the standard leaves open
    p = build.run(["g++"] + [f for f in flags if f.startswith("-fsanitize")] + list(reversed(objs)) + ["-o", exe], cwd=cppdir)
    if p.returncode != 0:
        return None, {"link": p.stderr.decode(errors="replace")[:4000]}
    return exe, {}


def schemas_from_cpp(cppdir):
    """{protocol name: schema text} extracted from generated protocols.cc."""
    txt = open(os.path.join(cppdir, "protocols.cc")).read()
    return {m.group(1): m.group(2) for m in re.finditer(r'std::string (\w+)WriterBase::schema_ = R"\((.*?)\)";\n', txt, re.S)}


class Driver:
    """Talks to a driver executable; restarts it when it dies (abort / sanitizer report / signal)."""

    def __init__(self, exe, env=None, args=()):
        self.exe, self.p, self.args = exe, None, list(args)
        self.env = dict(os.environ)
        self.env["ASAN_OPTIONS"] = "allocator_may_return_null=1:detect_leaks=0:abort_on_error=0"
        self.env["UBSAN_OPTIONS"] = "halt_on_error=1:print_stacktrace=0"
        if env:
            self.env.update(env)

    def _start(self):
        self.errf = tempfile.TemporaryFile(dir=build.scratch())
        self.p = subprocess.Popen([self.exe] + self.args, stdin=subprocess.PIPE, stdout=subprocess.PIPE, stderr=self.errf, env=self.env)

    def call(self, proto, mode, data, bufsize=1, timeout=60):
        """Returns (status, output bytes, message). status in OK / ERR / DIED / HANG."""
        if self.p is None or self.p.poll() is not None:
            self._start()
        try:
            self.p.stdin.write(("%s %s %d %d\n" % (proto, mode, bufsize, len(data))).encode() + data)
            self.p.stdin.flush()
        except BrokenPipeError:
            pass
        r, _, _ = select.select([self.p.stdout], [], [], timeout)
        if not r:
            self.p.kill()
            self.p.wait()
            self.p = None
            return "HANG", b"", "no answer within %ds" % timeout
        line = self.p.stdout.readline()
        if not line:
            rc = self.p.wait()
            self.errf.seek(0)
            err = self.errf.read().decode(errors="replace")[-1500:]
            self.p = None
            return "DIED", b"", "rc=%s %s" % (rc, err)
        st, n, m = line.split()
        out = self._read(int(n))
        msg = self._read(int(m)).decode(errors="replace")
        return st.decode(), out, msg

    def _read(self, n):
        buf = b""
        while len(buf) < n:
            c = self.p.stdout.read(n - len(buf))
            if not c:
                break
            buf += c
        return buf

    def close(self):
        if self.p is not None:
            try:
                self.p.stdin.close()
                self.p.wait(timeout=5)
            except Exception:
                self.p.kill()
            self.p = None

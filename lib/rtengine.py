"""Round-trip engine: drives reference-encoded protocol executions through paths of generated readers/writers
(hops) and verifies the output of every hop against the reference codec."""
import json, math

import am, refcodec, roundtrip


class NullCase:
    pass


class DateMarker:
    def __init__(self, text, kind=None, value=None):
        self.text, self.kind, self.value = text, kind, value


class EitherTagged:
    """Union declared over a type parameter: yardl decides tagged/untagged at the generic definition, where the docs'
    rule (distinct JSON datatypes) cannot be evaluated; both renderings are accepted."""

    def __init__(self, tag, inner):
        self.tag, self.inner = tag, inner


def parse_date_value(kind, s):
    """Value (days / ns) of a date, time or datetime text, or None when it does not parse."""
    import datetime, re
    try:
        if kind == "date":
            return (datetime.date.fromisoformat(s) - datetime.date(1970, 1, 1)).days
        m = re.match(r"^(?:(\d{4}-\d{2}-\d{2})T)?(\d{2}):(\d{2}):(\d{2})(?:\.(\d{1,9}))?Z?$", s)
        if not m or (kind == "time") != (m.group(1) is None):
            return None
        ns = ((int(m.group(2)) * 60 + int(m.group(3))) * 60 + int(m.group(4))) * 10**9 + int((m.group(5) or "0").ljust(9, "0"))
        if kind == "datetime":
            ns += (datetime.date.fromisoformat(m.group(1)) - datetime.date(1970, 1, 1)).days * 86400 * 10**9
        return ns
    except ValueError:
        return None


def ref_json(t, v):
    """Reference NDJSON mapping with date/time/datetime replaced by markers (textual rendering not compared in C++)."""
    k = t[0]
    if k == "prim" and t[1] in ("date", "time", "datetime"):
        return DateMarker(refcodec.tojson(t, v), t[1], v)
    if k == "prim" or k == "enum":
        return refcodec.tojson(t, v)
    if k == "record":
        out = {}
        for (fn, ft), fv in zip(t[2], v):
            if fv is None and ft[0] == "opt":
                continue
            if ft[0] == "union" and ft[1][0][1] is None and fv[0] == 0:
                continue
            out[fn] = ref_json(ft, fv)
        return out
    if k == "opt":
        return None if v is None else ref_json(t[1], v)
    if k == "union":
        idx, inner = v
        tag, ct = t[1][idx]
        if ct is None:
            # docs are silent on how the null case of a *tagged* union is rendered: accept null and {"null": null}
            return None if (refcodec.union_untagged(t) and len(t) <= 2) else NullCase()
        j = ref_json(ct, inner)
        if len(t) > 2:
            return EitherTagged(tag, j)
        return j if refcodec.union_untagged(t) else {tag: j}
    if k == "vec":
        return [ref_json(t[1], x) for x in v]
    if k == "arr":
        d = t[2]
        fixed = isinstance(d, tuple) and all(l is not None for _, l in d)
        data = [ref_json(t[1], x) for x in v[1]]
        return data if fixed else {"shape": list(v[0]), "data": data}
    if k == "map":
        if t[1] == ("prim", "string"):
            return {kk: ref_json(t[2], vv) for kk, vv in v}
        return [[ref_json(t[1], kk), ref_json(t[2], vv)] for kk, vv in v]
    raise ValueError(t)


def jeq(want, got, strict_dates=False, unordered_pairs=False):
    if isinstance(want, DateMarker):
        if not isinstance(got, str):
            return False
        # strict: the text must denote the same date/time value (trailing zeros of the fraction / "Z" are not compared)
        return parse_date_value(want.kind, got) == want.value if strict_dates else True
    if isinstance(want, EitherTagged):
        if jeq(want.inner, got, strict_dates):
            return True
        return isinstance(got, dict) and list(got.keys()) == [want.tag] and jeq(want.inner, got[want.tag], strict_dates)
    if isinstance(want, NullCase):
        return got is None or got == {"null": None}
    if isinstance(want, bool) or isinstance(got, bool):
        return isinstance(want, bool) and isinstance(got, bool) and want == got
    if isinstance(want, (int, float)) and isinstance(got, (int, float)):
        return want == got
    if isinstance(want, list) and isinstance(got, list):
        if len(want) != len(got):
            return False
        if all(jeq(x, y, strict_dates) for x, y in zip(want, got)):
            return True
        # map with non-string keys: array of [k, v] pairs, order not significant
        if want and all(isinstance(x, list) and len(x) == 2 for x in want + got):
            rest = list(got)
            for x in want:
                for i, y in enumerate(rest):
                    if jeq(x[0], y[0], strict_dates) and jeq(x[1], y[1], strict_dates):
                        del rest[i]
                        break
                else:
                    return False
            return True
        return False
    if isinstance(want, dict) and isinstance(got, dict):
        return want.keys() == got.keys() and all(jeq(want[k], got[k], strict_dates) for k in want)
    return type(want) == type(got) and want == got


def jdump(x):
    def d(o):
        if isinstance(o, DateMarker):
            return "<date:%s>" % o.text
        if isinstance(o, NullCase):
            return "<null>"
        if isinstance(o, EitherTagged):
            return {"<tagged-or-not:%s>" % o.tag: o.inner}
        raise TypeError
    return json.dumps(x, default=d)[:400]


class Engine:
    def __init__(self, chk, pr, k, max_exec, cap=None):
        self.chk, self.pr, self.k, self.max_exec, self.cap = chk, pr, k, max_exec, cap
        self.pkg = pr.pkg
        self.protos = {p.name: p for p in pr.pkg.protocols}

    def step_yaml(self, P, i):
        return am.yaml_type(self.protos[P].steps[i][1])

    def drv(self, lang):
        return self.pr.cpp if lang == "cpp" else self.pr.py

    def fail(self, lang, mode, what, P, i, desc, vals, parts, path, data=None):
        sy = self.step_yaml(P, i) if i is not None else "<protocol %s>" % P
        key = "%s/%s/%s/%s" % (lang, mode, what, sy)
        if P.startswith("PQ"):
            # quarantined shape classes (shapes.quarantine_class): the key names the class, language and hop kind
            xl = len({l for l, m, _ in path if "n" in m}) > 1
            key = "quarantine/%s/%s/%s/%s/%s" % (P[2], lang, ("ndjson-xlang" if xl else "ndjson") if "n" in mode else "binary", what, sy)
        key = getattr(self, "key_prefix", "") + key
        replay = {"namespace": self.pkg.namespace, "protocol": P, "step": None if i is None else self.protos[P].steps[i][0],
                  "step_type": sy, "path": path, "values": repr(vals)[:3000], "partitions": parts,
                  "model_yaml": am.yaml_model(self.pkg) if i is None else am.yaml_def(self.protos[P]),
                  "input_hex": data.hex()[:4000] if data is not None else None}
        self.chk.fail(key, desc, replay)

    # ---- verification of one hop output
    def verify_binary(self, lang, mode, P, steps, vals, parts, out, path, data):
        try:
            schema, got, gparts = refcodec.decode_protocol(steps, out)
        except (refcodec.DecodeError, UnicodeDecodeError, IndexError) as e:
            self.fail(lang, mode, "undecodable-output", P, None, "output of %s does not decode under the published format: %s" % (mode, e), vals, parts, path, data)
            return False
        if schema != self.pr.schemas[P]:
            self.fail(lang, mode, "schema-header", P, None, "schema in header differs from the protocol's schema", vals, parts, path, data)
            return False
        bad = roundtrip.compare_decoded(steps, vals, got)
        for i, d in bad:
            self.fail(lang, mode, "value-mismatch", P, i, d, vals, parts, path, data)
        if not bad:
            canon = refcodec.encode_protocol(steps, got, schema, gparts)
            if canon != out:
                self.fail(lang, mode, "non-canonical-bytes", P, None, "output bytes differ from the canonical encoding of the decoded values", vals, parts, path, data)
                return False
        return not bad

    def verify_ndjson(self, lang, mode, P, steps, vals, parts, out, path, data, strict_dates):
        try:
            lines = roundtrip.parse_ndjson(out.decode("utf-8"))
        except Exception as e:
            self.fail(lang, mode, "invalid-json", P, None, "NDJSON output is not valid JSON lines: %s" % e, vals, parts, path, data)
            return False
        want_header = {"yardl": {"version": 1, "schema": json.loads(self.pr.schemas[P])}}
        if not lines or lines[0] != want_header:
            self.fail(lang, mode, "ndjson-header", P, None, "first line is not the documented header: %s" % (jdump(lines[0]) if lines else "<none>"), vals, parts, path, data)
            return False
        want = []
        for i, ((name, t), v) in enumerate(zip(steps, vals)):
            if t[0] == "stream":
                want += [(i, {name: ref_json(t[1], x)}) for x in v]
            else:
                want.append((i, {name: ref_json(t, v)}))
        got = lines[1:]
        ok = True
        for j, (i, w) in enumerate(want):
            if j >= len(got):
                self.fail(lang, mode, "ndjson-missing-lines", P, i, "expected %d value lines, got %d" % (len(want), len(got)), vals, parts, path, data)
                return False
            if not jeq(w, got[j], strict_dates):
                ok = False
                self.fail(lang, mode, "ndjson-mapping", P, i, "line %d: documented mapping %s, got %s" % (j + 1, jdump(w), jdump(got[j])), vals, parts, path, data)
        if len(got) > len(want):
            ok = False
            self.fail(lang, mode, "ndjson-extra-lines", P, None, "expected %d value lines, got %d" % (len(want), len(got)), vals, parts, path, data)
        return ok

    # ---- running paths
    def run_path(self, P, steps, vals, parts, path, data0, isolate_on_fail=True, sv=None):
        """path: list of (lang, mode, bufsize). Returns True when every hop verified."""
        cur = data0
        for hop_i, (lang, mode, bs) in enumerate(path):
            st, out, msg = self.drv(lang).call(P, mode, cur, bs)
            self.chk.outcome("%s/%s/%s" % (lang, mode, st))
            if st != "OK":
                what = {"ERR": "reader-or-writer-error", "DIED": "crash", "HANG": "hang"}[st]
                bad = None
                if isolate_on_fail and sv is not None and hop_i == 0:
                    def rerun(v2, p2):
                        d2 = refcodec.encode_protocol(steps, v2, self.pr.schemas[P], p2)
                        s2, _, _ = self.drv(lang).call(P, mode, d2, bs)
                        return s2 == "OK"
                    bad = roundtrip.isolate(steps, vals, parts, sv, rerun)
                import re as _re
                m = _re.match(r"@step=(\d+) ", msg)
                if not bad and m and int(m.group(1)) < len(steps):
                    i = int(m.group(1))
                    self.fail(lang, mode, what, P, i, "%s on valid input at hop %d: %s (value %r)" % (st, hop_i, msg[:300], vals[i] if len(repr(vals[i])) < 300 else "..."), vals, parts, path, cur)
                elif bad:
                    for i in bad:
                        self.fail(lang, mode, what, P, i, "%s on valid input: %s (value %r)" % (st, msg[:300], vals[i]), vals, parts, path, cur)
                else:
                    self.fail(lang, mode, what, P, None, "%s on valid input at hop %d: %s" % (st, hop_i, msg[:300]), vals, parts, path, cur)
                return False
            if mode[2] == "b":
                ok = self.verify_binary(lang, mode, P, steps, vals, parts, out, path, cur)
            else:
                ok = self.verify_ndjson(lang, mode, P, steps, vals, parts, out, path, cur, strict_dates=(lang == "py"))
            if not ok:
                return False
            cur = out
        return True

    def run_custom(self, execs_by_protocol, paths):
        """execs_by_protocol: {P: [(vals, parts)]} - hand-made executions (e.g. stream-length patterns)."""
        for P, execs in execs_by_protocol.items():
            steps = self.pr.steps[P]
            for vals, parts in execs:
                data = refcodec.encode_protocol(steps, vals, self.pr.schemas[P], parts)
                self.chk.nontriv(hash((P, repr(vals), repr(parts))))
                for path in paths:
                    self.chk.count()
                    self.run_path(P, steps, vals, parts, path, data, isolate_on_fail=False)

    def run(self, paths_binary, paths_json, protocols=None, skip_dates_for=None):
        """paths_binary: paths run on full value domains (incl. NaN/inf); paths_json: on JSON-safe domains."""
        for P, steps in self.pr.steps.items():
            if protocols and P not in protocols:
                continue
            for json_safe, paths in ((False, paths_binary), (True, paths_json)):
                if not paths:
                    continue
                execs, sv = roundtrip.executions(steps, self.k, json_safe, self.max_exec, self.cap)
                for (sname, t), vs in zip(steps, sv):
                    it = t[1] if t[0] == "stream" else t
                    for v in vs[1:]:
                        self.chk.nontriv(hash((P, sname, repr(refcodec.canon(it, v)))))
                for vals, parts in execs:
                    data = refcodec.encode_protocol(steps, vals, self.pr.schemas[P], parts)
                    for path in paths:
                        if (P.startswith("PD") or P.startswith("PQ")) and skip_dates_for and skip_dates_for(path) and (P.startswith("PD") or P[2] not in "bc"):
                            continue
                        self.chk.count()
                        self.run_path(P, steps, vals, parts, path, data, sv=sv)
                if self.chk.evaluations % 50 < len(execs):
                    self.chk.sample({"protocol": "%s.%s" % (self.pkg.namespace, P), "steps": len(steps),
                                     "first_step": self.step_yaml(P, 0), "executions": len(execs)})


def buffer_executions(pr, quick=True):
    """Alignment executions for the buffer package: for every B<T> protocol the value v is placed so that its first byte
    lies at offset 65536*m - j for every j in [0, len(enc(v))], m in {1} (quick) or {1, 2}; long-stream executions for L<T>."""
    import values as _values
    out = {}
    for P, steps in pr.steps.items():
        schema = pr.schemas[P]
        if P.startswith("B"):
            t = steps[1][1]
            vs = _values.values(t, 2, json_safe=True)
            v = max(vs, key=lambda x: len(refcodec.encode(t, x)))     # the value with the longest encoding
            if len(refcodec.encode(t, v)) > 64:
                v = next(x for x in vs if 2 <= len(refcodec.encode(t, x)) <= 64)
            tail = [v, vs[0], v]
            n = len(refcodec.encode(t, v))
            hdr = len(refcodec.header(schema))
            execs = []
            for m in ((1,) if quick else (1, 2)):
                for j in range(0, n + 2):
                    target = BUF * m - j                  # absolute offset of the first byte of v
                    L = target - hdr
                    # pad = uvarint(len) + bytes
                    for vl in (1, 2, 3, 4):
                        if len(refcodec.uvarint(L - vl)) == vl:
                            L -= vl
                            break
                    if L < 0:
                        continue
                    execs.append(([("x" * L), v, tail, 5], {2: [1, 2]}))
            out[P] = execs
        elif P.startswith("L"):
            t = steps[0][1]
            vs = _values.values(t, 1, json_safe=True)
            a, b = vs[0], vs[min(2, len(vs) - 1)]
            per = max(1, len(refcodec.encode(t, b)))
            nitems = min(30000, (3 * BUF) // per + 7)
            items = [b if i % 3 else a for i in range(nitems)]
            nbig = min(30000, (BUF + 4096) // per + 3)
            out[P] = [([b, items, [b] * nbig, 9], {1: [nitems // 2, nitems - nitems // 2]}),
                      ([a, [], [], 9], {})]
    return out


BUF = 65536

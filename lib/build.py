"""Build helpers: scratch dirs, yardl binary, Go harness (overlay), C++ compile.

Everything is rebuilt from /repo's *current working tree* on every check invocation.
/repo is never written: the harness sources live in /verif/goharness and are mapped
into the module with `go build -overlay`.
"""
import atexit, hashlib, json, os, shutil, signal, subprocess, sys, tempfile, time

VERIF = os.path.dirname(os.path.dirname(os.path.abspath(__file__)))
REPO = os.environ.get("VERIF_REPO", "/repo")
TOOLING = os.path.join(REPO, "tooling")
PY = "/opt/veriftools/pyvenv/bin/python"
NCPU = int(os.environ.get("VERIF_JOBS", os.cpu_count() or 4))

_scratch = None


def goenv():
    e = dict(os.environ)
    e["GOFLAGS"] = "-mod=mod"
    e["GOPROXY"] = "off"
    e.pop("GOSUMDB", None)      # GOSUMDB=off makes the toolchain switch fail
    e.pop("GOTOOLCHAIN", None)  # default go (1.23.5) must auto-switch to cached 1.24.0
    return e


def scratch():
    """One scratch dir per process (under /dev/shm when available), removed at exit."""
    global _scratch
    if _scratch is None:
        base = "/dev/shm" if os.path.isdir("/dev/shm") and os.access("/dev/shm", os.W_OK) else tempfile.gettempdir()
        _scratch = tempfile.mkdtemp(prefix="verif-", dir=base)
        os.makedirs(os.path.join(_scratch, "home"), exist_ok=True)
        atexit.register(_cleanup)
        for s in (signal.SIGTERM, signal.SIGINT, signal.SIGHUP):
            signal.signal(s, _sig)
    return _scratch


def _sig(signum, frame):
    _cleanup()
    os._exit(128 + signum)


def _cleanup():
    global _scratch
    if _scratch and os.path.isdir(_scratch) and os.getpid() == _owner:
        shutil.rmtree(_scratch, ignore_errors=True)
    _scratch = None


_owner = os.getpid()


def run(cmd, cwd=None, env=None, input=None, timeout=None, check=False):
    p = subprocess.run(cmd, cwd=cwd, env=env, input=input, stdout=subprocess.PIPE, stderr=subprocess.PIPE,
                       timeout=timeout)
    if check and p.returncode != 0:
        sys.stderr.write("command failed: %s\n%s\n%s\n" % (cmd, p.stdout.decode(errors="replace")[-4000:],
                                                         p.stderr.decode(errors="replace")[-4000:]))
        raise HarnessError("command failed: %r" % (cmd,))
    return p


class HarnessError(Exception):
    """The machinery itself is broken (exit 2, never a VIOLATION)."""


def yardl_bin():
    """Build the yardl CLI from /repo's working tree."""
    out = os.path.join(scratch(), "bin", "yardl")
    if not os.path.exists(out):
        os.makedirs(os.path.dirname(out), exist_ok=True)
        run(["go", "build", "-o", out, "./cmd/yardl"], cwd=TOOLING, env=goenv(), check=True)
    return out


def overlay_file(extra=None):
    """overlay.json mapping /verif/goharness files into the tooling module."""
    gh = os.path.join(VERIF, "goharness")
    rep = {
        os.path.join(TOOLING, "cmd/verifharness/main.go"): os.path.join(gh, "main.go"),
        os.path.join(TOOLING, "internal/cmd/verif_export.go"): os.path.join(gh, "cmd_export.go"),
    }
    for fn in sorted(os.listdir(gh)):
        if fn.startswith("h_") and fn.endswith(".go"):
            rep[os.path.join(TOOLING, "cmd/verifharness", fn)] = os.path.join(gh, fn)
    if extra:
        rep.update(extra)
    path = os.path.join(scratch(), "overlay-%s.json" % hashlib.sha1(json.dumps(rep, sort_keys=True).encode()).hexdigest()[:10])
    with open(path, "w") as f:
        json.dump({"Replace": rep}, f)
    return path


def harness_bin(extra_overlay=None, name="verifharness", race=False):
    out = os.path.join(scratch(), "bin", name)
    if not os.path.exists(out):
        os.makedirs(os.path.dirname(out), exist_ok=True)
        cmd = ["go", "build", "-overlay", overlay_file(extra_overlay), "-o", out]
        if race:
            cmd.append("-race")
        cmd.append("./cmd/verifharness")
        run(cmd, cwd=TOOLING, env=goenv(), check=True)
    return out


def run_env():
    e = dict(os.environ)
    e["HOME"] = os.path.join(scratch(), "home")
    e["NO_COLOR"] = "1"
    return e


def yardl(args, cwd, timeout=120):
    """Run the real CLI. Returns (rc, stdout, stderr)."""
    p = run([yardl_bin()] + list(args), cwd=cwd, env=run_env(), timeout=timeout)
    return p.returncode, p.stdout.decode(errors="replace"), p.stderr.decode(errors="replace")


def harness(subcmd, lines, timeout=3600, extra_args=(), vlimit_kb=None):
    """Run a harness sub-command feeding JSON lines; returns list of decoded JSON outputs."""
    inp = ("\n".join(json.dumps(l) for l in lines) + "\n").encode()
    cmd = [harness_bin(), subcmd] + list(extra_args)
    if vlimit_kb:
        cmd = ["sh", "-c", "ulimit -v %d; exec \"$@\"" % vlimit_kb, "sh"] + cmd
    p = run(cmd, input=inp, env=run_env(), timeout=timeout)
    outs = []
    for l in p.stdout.decode(errors="replace").splitlines():
        if l.startswith("{"):
            outs.append(json.loads(l))
    return p.returncode, outs, p.stderr.decode(errors="replace")


def write_tree(root, files):
    """files: {relative path: text}"""
    for rel, text in files.items():
        p = os.path.join(root, rel)
        os.makedirs(os.path.dirname(p), exist_ok=True)
        with open(p, "w") as f:
            f.write(text)


def warm():
    t = time.time()
    yardl_bin()
    harness_bin()
    run(["go", "build", "-o", os.path.join(scratch(), "bin", "maprange"), "./maprange"], cwd=os.path.join(VERIF, "gotools"), env=goenv(), check=True)
    print("setup: yardl + harness built in %.1fs" % (time.time() - t))


class Pool:
    """multiprocessing.Pool without Pool.terminate(): terminate() drains the task queue under the queue's reader lock, and when
    a worker was killed while holding that lock (SIGTERM arrives during get()) the parent waits for the lock forever. On a normal
    exit the pool is closed and joined (workers finish and leave by themselves); on an exception the workers are killed and the
    pool's finalizer is cancelled. Harness children of the workers die with them (PR_SET_PDEATHSIG)."""

    def __init__(self, *a, **kw):
        import multiprocessing
        self.pool = multiprocessing.Pool(*a, **kw)

    def __enter__(self):
        return self.pool

    def abandon(self):
        for p in list(getattr(self.pool, "_pool", [])):
            try:
                p.kill()
            except Exception:  # noqa
                pass
        try:
            self.pool._terminate.cancel()
        except Exception:  # noqa
            pass

    def __exit__(self, et, ev, tb):
        if et is None:
            try:
                self.pool.close()
                self.pool.join()
                return False
            except Exception:  # noqa
                pass
        self.abandon()
        return False


def _die_with_parent():
    """PR_SET_PDEATHSIG: a harness process that hangs (busy loop in the code under test) must not outlive a killed worker."""
    try:
        import ctypes
        ctypes.CDLL("libc.so.6", use_errno=True).prctl(1, signal.SIGKILL)
    except Exception:  # noqa
        pass


class HarnessProc:
    """Interactive harness sub-process: one JSON request -> one JSON response.
    If the process dies on a request (os.Exit / fatal error / OOM kill), the response is
    {"died": rc, "stderr": tail} and the process is restarted for the next request."""

    def __init__(self, subcmd, extra_overlay=None, vlimit_kb=None, bin_path=None, env=None, cwd=None):
        self.subcmd = subcmd
        self.bin = bin_path or harness_bin(extra_overlay)
        self.vlimit_kb = vlimit_kb
        self.env = env or run_env()
        self.cwd = cwd
        self.p = None

    def _start(self):
        cmd = [self.bin, self.subcmd]
        if self.vlimit_kb:
            cmd = ["sh", "-c", "ulimit -v %d; exec \"$@\"" % self.vlimit_kb, "sh"] + cmd
        self.errf = tempfile.TemporaryFile(dir=scratch())
        self.p = subprocess.Popen(cmd, stdin=subprocess.PIPE, stdout=subprocess.PIPE, stderr=self.errf,
                                  env=self.env, cwd=self.cwd, preexec_fn=_die_with_parent)

    def call(self, req, timeout=60):
        if self.p is None or self.p.poll() is not None:
            self._start()
        try:
            self.p.stdin.write((json.dumps(req) + "\n").encode())
            self.p.stdin.flush()
        except BrokenPipeError:
            pass
        import select
        r, _, _ = select.select([self.p.stdout], [], [], timeout)
        if not r:
            self.p.kill()
            self.p.wait()
            self.p = None
            return {"hang": True}
        line = self.p.stdout.readline()
        if not line:
            rc = self.p.wait()
            self.errf.seek(0)
            err = self.errf.read().decode(errors="replace")
            if len(err) > 3000:
                err = err[:800] + "\n...\n" + err[-2200:]
            self.p = None
            return {"died": rc, "stderr": err}
        return json.loads(line)

    def close(self):
        if self.p is not None:
            try:
                self.p.stdin.close()
                self.p.wait(timeout=5)
            except Exception:
                self.p.kill()
            self.p = None

"""Shared machinery for the generated-code checks (C01 C02 C03 ...): prepare packed packages (generate, compile C++,
start drivers), build executions (value assignments for whole protocols) and compare outcomes with the reference codec."""
import json, os, time
from concurrent.futures import ThreadPoolExecutor

import am, build, cppdrv, refcodec, values


class Prepared:
    def __init__(self, pkg, index):
        self.pkg, self.index = pkg, index
        self.root = self.outdir = self.cppdir = self.pydir = None
        self.schemas = {}
        self.cpp = None
        self.py = None
        self.gen_rc = None
        self.gen_err = ""
        self.cpp_errors = {}
        self.steps = {}     # protocol name -> [(step name, concrete type)]

    def close(self):
        for d in (self.cpp, self.py):
            if d:
                d.close()


def prepare_one(pkg, index, want_cpp=True, want_py=True, flags=("-O0",), with_ndjson=True, cpp_opts=None, manual=False):
    pr = Prepared(pkg, index)
    pr.root = os.path.join(build.scratch(), "pk", pkg.dirname)
    targets = tuple(t for t, w in (("cpp", want_cpp), ("python", want_py)) if w)
    rc, err, outdir = cppdrv.generate(pkg, pr.root, targets=targets, cpp_opts=cpp_opts)
    pr.gen_rc, pr.gen_err, pr.outdir = rc, err, outdir
    if rc != 0:
        return pr
    pr.cppdir, pr.pydir = os.path.join(outdir, "cpp"), os.path.join(outdir, "py")
    for p in pkg.protocols:
        pr.steps[p.name] = [(sn, am.resolve(pkg, st)) for sn, st in p.steps]
    if want_cpp:
        pr.schemas = cppdrv.schemas_from_cpp(pr.cppdir)
        exe, errors = cppdrv.build_driver(pkg, pr.cppdir, flags=flags, with_ndjson=with_ndjson, manual=manual)
        pr.cpp_errors = errors
        if exe:
            pr.cpp = cppdrv.Driver(exe)
    if want_py:
        mods = [d for d in os.listdir(pr.pydir) if os.path.isdir(os.path.join(pr.pydir, d))]
        pr.pymod = pkg.namespace.lower() if pkg.namespace.lower() in mods else mods[0]
        if not pr.schemas:
            pr.schemas = schemas_from_py(os.path.join(pr.pydir, pr.pymod))
        pr.py = cppdrv.Driver(build.PY, args=[os.path.join(build.VERIF, "lib", "pydrv_main.py"), pr.pydir, pr.pymod])
    return pr


def schemas_from_py(moddir):
    import re
    txt = open(os.path.join(moddir, "protocols.py")).read()
    return {m.group(1): m.group(2) for m in re.finditer(r'class (\w+)WriterBase\(abc\.ABC\):.*?schema = r"""(.*?)"""', txt, re.S)}


def prepare_all(packed, **kw):
    """packed: list of (pkg, index). Generation + compilation run concurrently (compile jobs share one pool)."""
    with ThreadPoolExecutor(max(4, build.NCPU // 2)) as ex:
        futs = [ex.submit(prepare_one, pkg, index, **kw) for pkg, index in packed]
        return [f.result() for f in futs]


# ------------------------------------------------------------------ executions
def step_values(steps, k, json_safe, cap=None):
    out = []
    for _, t in steps:
        it = t[1] if t[0] == "stream" else t
        out.append(values.values(it, k, json_safe, cap))
    return out


def executions(steps, k, json_safe, max_exec, cap=None):
    """List of (values per step, partitions) covering every value of every step at least once."""
    sv = step_values(steps, k, json_safe, cap)
    nmax = max([len(v) for (_, t), v in zip(steps, sv) if t[0] != "stream"] + [3])
    n = min(nmax, max_exec)
    out = []
    for j in range(n):
        vals, parts = [], {}
        for i, ((_, t), v) in enumerate(zip(steps, sv)):
            if t[0] == "stream":
                if j == 0:
                    vals.append(list(v))
                elif j == 1:
                    # reversed order (present -> absent, long -> short, ...) in single-item blocks
                    vals.append(list(reversed(v)))
                    parts[i] = [1] * len(v)
                elif j == 2:
                    vals.append([])
                else:
                    vals.append([v[j % len(v)], v[0]])
                    parts[i] = [1, 1]
            else:
                vals.append(v[j % len(v)])
        out.append((vals, parts))
    return out, sv


def isolate(steps, vals, parts, sv, run):
    """After a whole-protocol failure: re-run with all-default values except one step at a time.
    run(vals, parts) -> bool ok. Returns list of step indices that fail alone (may be empty)."""
    base = [([] if t[0] == "stream" else v[0]) for (_, t), v in zip(steps, sv)]
    bad = []
    if not run(list(base), {}):
        return None  # even the default execution fails
    for i in range(len(steps)):
        one = list(base)
        one[i] = vals[i]
        p = {i: parts[i]} if i in parts else {}
        if vals[i] != base[i] and not run(one, p):
            bad.append(i)
    return bad


def compare_decoded(steps, want_vals, got_vals):
    """Returns list of (step index, description) mismatches (canonical comparison)."""
    out = []
    for i, ((sn, t), w, g) in enumerate(zip(steps, want_vals, got_vals)):
        if refcodec.canon(t, w) != refcodec.canon(t, g):
            if t[0] == "stream":
                it = t[1]
                pos = next((j for j in range(min(len(w), len(g))) if refcodec.canon(it, w[j]) != refcodec.canon(it, g[j])), min(len(w), len(g)))
                out.append((i, "stream %s: item %d differs (wrote %d items, read %d): want %r got %r" % (
                    sn, pos, len(w), len(g), w[pos] if pos < len(w) else None, g[pos] if pos < len(g) else None)))
            else:
                out.append((i, "step %s: want %r got %r" % (sn, w, g)))
    return out


def parse_ndjson(text):
    lines = [l for l in text.split("\n") if l.strip()]
    return [json.loads(l) for l in lines]


def has_date(t):
    return refcodec.contains(t, lambda x: x[0] == "prim" and x[1] in ("date", "time", "datetime"))


def has_float(t):
    return refcodec.contains(t, lambda x: x[0] == "prim" and ("float" in x[1]))


def run_packages(chk, packed, worker, nproc=None, compile_threads=3):
    """Runs worker(sub_check, pkg, index) for every packed package in a process pool and merges the results."""
    import multiprocessing as mp
    import evidence
    nproc = nproc or min(len(packed), max(1, build.NCPU // 2))
    build.yardl_bin()
    cppdrv.inc_dir()
    ctx = mp.get_context("fork")

    with ctx.Pool(nproc, initializer=_init_worker, initargs=(compile_threads,)) as pool:
        args = [(chk.prop, chk.level, chk.tier, worker, pkg, index, chk.deadline) for pkg, index in packed]
        for st in pool.imap_unordered(_run_worker, args):
            evidence.merge_state(chk, st)


def _init_worker(compile_threads):
    cppdrv._pool = ThreadPoolExecutor(compile_threads)


def _run_worker(a):
    import evidence
    prop, level, tier, worker, pkg, index, deadline = a
    sub = evidence.Check(prop, level, tier, "")
    sub.deadline = deadline
    try:
        worker(sub, pkg, index)
    except build.HarnessError as e:
        sub.extra["harness_errors"] = ["%s: %s" % (pkg.namespace, e)]
    return evidence.export_state(sub)

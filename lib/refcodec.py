"""Reference codec written from docs/reference/binary.md, ndjson.md and protocol-schema.md only.

Values (canonical Python form) for a concrete type (see am.resolve):
  bool -> bool | ints, date, time, datetime, enum, flags -> int | float32/64 -> float | complex -> complex |
  string -> str | record -> list of field values | opt -> None | value | union -> (index, value|None) |
  vec -> list | arr -> (shape tuple, flat list) | map -> list of (k, v) | stream -> list
"""
import itertools, json, math, struct

import am

MAGIC = b"yardl"


class DecodeError(Exception):
    pass


# ------------------------------------------------------------------ binary encode
def uvarint(n):
    assert n >= 0
    out = bytearray()
    while True:
        b = n & 0x7F
        n >>= 7
        if n:
            out.append(b | 0x80)
        else:
            out.append(b)
            return bytes(out)


def svarint(n):
    return uvarint(2 * n if n >= 0 else 2 * (-n) - 1)


def enc_prim(name, v):
    if name == "bool":
        return b"\x01" if v else b"\x00"
    if name == "int8":
        return struct.pack("<b", v)      # single byte, two's complement (binary.md, "Signed integers")
    if name == "uint8":
        return struct.pack("<B", v)      # single byte (binary.md, "Unsigned Integers")
    if name in am.SIGNED or name in ("date", "time", "datetime"):
        return svarint(v)
    if name in am.INT_RANGE:
        return uvarint(v)
    if name == "float32":
        return struct.pack("<f", v)
    if name == "float64":
        return struct.pack("<d", v)
    if name == "complexfloat32":
        return struct.pack("<ff", v.real, v.imag)
    if name == "complexfloat64":
        return struct.pack("<dd", v.real, v.imag)
    if name == "string":
        b = v.encode("utf-8")
        return uvarint(len(b)) + b
    raise ValueError(name)


def enum_base(e):
    return am.PRIM_ALIASES.get(e.base, e.base) if e.base else "int32"


def encode(t, v):
    k = t[0]
    if k == "prim":
        return enc_prim(t[1], v)
    if k == "enum":
        return enc_prim(enum_base(t[1]), v)
    if k == "record":
        return b"".join(encode(ft, fv) for (_, ft), fv in zip(t[2], v))
    if k == "opt":
        return b"\x00" if v is None else b"\x01" + encode(t[1], v)
    if k == "union":
        idx, inner = v
        ct = t[1][idx][1]
        return uvarint(idx) + (b"" if ct is None else encode(ct, inner))
    if k == "vec":
        body = b"".join(encode(t[1], x) for x in v)
        if t[2] is None:
            return uvarint(len(v)) + body
        assert len(v) == t[2]
        return body
    if k == "arr":
        shape, flat = v
        d = t[2]
        out = b""
        if d is None:
            out += uvarint(len(shape))
        if d is None or isinstance(d, int) or any(l is None for _, l in d):
            out += b"".join(uvarint(s) for s in shape)
        return out + b"".join(encode(t[1], x) for x in flat)
    if k == "map":
        return uvarint(len(v)) + b"".join(encode(t[1], kk) + encode(t[2], vv) for kk, vv in v)
    raise ValueError(t)


def encode_stream(t, items, partition=None):
    """t: item type. partition: list of block sizes (sum = len(items)); default: one block (or none if empty)."""
    if partition is None:
        partition = [len(items)] if items else []
    out, i = b"", 0
    for n in partition:
        assert n > 0
        out += uvarint(n) + b"".join(encode(t, x) for x in items[i:i + n])
        i += n
    assert i == len(items)
    return out + b"\x00"


def header(schema_text):
    b = schema_text.encode("utf-8")
    return MAGIC + struct.pack("<i", 1) + uvarint(len(b)) + b


def encode_protocol(steps, values, schema_text, partitions=None):
    """steps: [(name, ctype)], values: list aligned with steps (stream steps: list of items)."""
    out = header(schema_text)
    for i, ((_, t), v) in enumerate(zip(steps, values)):
        if t[0] == "stream":
            out += encode_stream(t[1], v, (partitions or {}).get(i))
        else:
            out += encode(t, v)
    return out


# ------------------------------------------------------------------ binary decode
class Buf:
    def __init__(self, b, pos=0):
        self.b, self.pos = b, pos

    def take(self, n):
        if self.pos + n > len(self.b):
            raise DecodeError("unexpected end at %d (+%d)" % (self.pos, n))
        r = self.b[self.pos:self.pos + n]
        self.pos += n
        return r

    def uvar(self):
        n = shift = 0
        while True:
            c = self.take(1)[0]
            n |= (c & 0x7F) << shift
            shift += 7
            if not c & 0x80:
                return n
            if shift > 70:
                raise DecodeError("varint too long")

    def svar(self):
        n = self.uvar()
        return (n >> 1) if not n & 1 else -((n + 1) >> 1)


def dec_prim(name, b):
    if name == "bool":
        c = b.take(1)[0]
        if c > 1:
            raise DecodeError("bool byte %d" % c)
        return bool(c)
    if name == "int8":
        return struct.unpack("<b", b.take(1))[0]
    if name == "uint8":
        return b.take(1)[0]
    if name in am.SIGNED or name in ("date", "time", "datetime"):
        return b.svar()
    if name in am.INT_RANGE:
        return b.uvar()
    if name == "float32":
        return struct.unpack("<f", b.take(4))[0]
    if name == "float64":
        return struct.unpack("<d", b.take(8))[0]
    if name == "complexfloat32":
        r, i = struct.unpack("<ff", b.take(8))
        return complex(r, i)
    if name == "complexfloat64":
        r, i = struct.unpack("<dd", b.take(16))
        return complex(r, i)
    if name == "string":
        n = b.uvar()
        return b.take(n).decode("utf-8")
    raise ValueError(name)


def decode(t, b):
    k = t[0]
    if k == "prim":
        return dec_prim(t[1], b)
    if k == "enum":
        return dec_prim(enum_base(t[1]), b)
    if k == "record":
        return [decode(ft, b) for _, ft in t[2]]
    if k == "opt":
        c = b.take(1)[0]
        if c > 1:
            raise DecodeError("optional flag %d" % c)
        return decode(t[1], b) if c else None
    if k == "union":
        idx = b.uvar()
        if idx >= len(t[1]):
            raise DecodeError("union index %d" % idx)
        ct = t[1][idx][1]
        return (idx, None if ct is None else decode(ct, b))
    if k == "vec":
        n = t[2] if t[2] is not None else b.uvar()
        if n > len(b.b):
            raise DecodeError("vector length %d" % n)
        return [decode(t[1], b) for _ in range(n)]
    if k == "arr":
        d = t[2]
        if d is None:
            rank = b.uvar()
            if rank > 64:
                raise DecodeError("rank %d" % rank)
            shape = tuple(b.uvar() for _ in range(rank))
        elif isinstance(d, int):
            shape = tuple(b.uvar() for _ in range(d))
        elif any(l is None for _, l in d):
            shape = tuple(b.uvar() for _ in d)
        else:
            shape = tuple(l for _, l in d)
        n = 1
        for s in shape:
            n *= s
        if n > len(b.b) + 1:
            raise DecodeError("array size %d" % n)
        return (shape, [decode(t[1], b) for _ in range(n)])
    if k == "map":
        n = b.uvar()
        if n > len(b.b):
            raise DecodeError("map length %d" % n)
        return [(decode(t[1], b), decode(t[2], b)) for _ in range(n)]
    raise ValueError(t)


def decode_stream(t, b):
    items, blocks = [], []
    while True:
        n = b.uvar()
        if n == 0:
            return items, blocks
        if n > len(b.b):
            raise DecodeError("block length %d" % n)
        blocks.append(n)
        for _ in range(n):
            items.append(decode(t, b))


def decode_protocol(steps, data, expect_schema=None):
    """Returns (schema_text, values, partitions). Raises DecodeError on malformed/trailing data."""
    b = Buf(data)
    if b.take(5) != MAGIC:
        raise DecodeError("bad magic")
    if struct.unpack("<i", b.take(4))[0] != 1:
        raise DecodeError("bad version")
    schema = b.take(b.uvar()).decode("utf-8")
    vals, parts = [], {}
    for i, (_, t) in enumerate(steps):
        if t[0] == "stream":
            items, blocks = decode_stream(t[1], b)
            vals.append(items)
            parts[i] = blocks
        else:
            vals.append(decode(t, b))
    if b.pos != len(data):
        raise DecodeError("trailing bytes: %d of %d consumed" % (b.pos, len(data)))
    return schema, vals, parts


# ------------------------------------------------------------------ canonical form for comparison
def canon(t, v):
    """Hashable canonical form: NaN by bit pattern, -0.0 distinguished, map entry order ignored."""
    k = t[0]
    if k == "prim":
        n = t[1]
        if n == "float32":
            return struct.pack("<f", v)
        if n == "float64":
            return struct.pack("<d", v)
        if n == "complexfloat32":
            return struct.pack("<ff", v.real, v.imag)
        if n == "complexfloat64":
            return struct.pack("<dd", v.real, v.imag)
        return v
    if k == "enum":
        return v
    if k == "record":
        return tuple(canon(ft, fv) for (_, ft), fv in zip(t[2], v))
    if k == "opt":
        return None if v is None else ("some", canon(t[1], v))
    if k == "union":
        ct = t[1][v[0]][1]
        return (v[0], None if ct is None else canon(ct, v[1]))
    if k in ("vec", "stream"):
        return tuple(canon(t[1], x) for x in v)
    if k == "arr":
        return (tuple(v[0]), tuple(canon(t[1], x) for x in v[1]))
    if k == "map":
        return tuple(sorted(((canon(t[1], kk), canon(t[2], vv)) for kk, vv in v), key=repr))
    raise ValueError(t)


# ------------------------------------------------------------------ NDJSON mapping (docs/reference/ndjson.md)
def fmt_date(days):
    import datetime
    return (datetime.date(1970, 1, 1) + datetime.timedelta(days=days)).isoformat()


def fmt_time(ns):
    s, f = divmod(ns, 10**9)
    return "%02d:%02d:%02d.%09d" % (s // 3600, (s // 60) % 60, s % 60, f)


def fmt_datetime(ns):
    d, r = divmod(ns, 86400 * 10**9)
    return fmt_date(d) + "T" + fmt_time(r)


def json_kinds(t):
    """Set of JSON datatypes a value of concrete type t can serialize to (documented mapping)."""
    if t is None:
        return {"null"}
    k = t[0]
    if k == "prim":
        n = t[1]
        if n == "bool":
            return {"boolean"}
        if n in ("string", "date", "time", "datetime"):
            return {"string"}
        if n.startswith("complex"):
            return {"array"}
        return {"number"}
    if k == "enum":
        return {"array", "number"} if t[1].flags else {"string", "number"}
    if k == "record":
        return {"object"}
    if k == "opt":
        return {"null"} | json_kinds(t[1])
    if k == "vec":
        return {"array"}
    if k == "arr":
        d = t[2]
        fixed = isinstance(d, tuple) and all(l is not None for _, l in d)
        return {"array"} if fixed else {"object"}
    if k == "map":
        return {"object"} if t[1] == ("prim", "string") else {"array"}
    if k == "union":
        s = set()
        for _, c in t[1]:
            s |= json_kinds(c)
        return s
    raise ValueError(t)


def union_untagged(t):
    kinds = [json_kinds(c) for _, c in t[1]]
    for i in range(len(kinds)):
        for j in range(i + 1, len(kinds)):
            if kinds[i] & kinds[j]:
                return False
    return True


def tojson(t, v, dates="doc"):
    k = t[0]
    if k == "prim":
        n = t[1]
        if n.startswith("complex"):
            return [v.real, v.imag]
        if n == "date":
            return fmt_date(v)
        if n == "time":
            return fmt_time(v)
        if n == "datetime":
            return fmt_datetime(v) + ("Z" if dates == "doc" else "")
        return v
    if k == "enum":
        e = t[1]
        if e.flags:
            if v == 0:
                return []
            syms, rest = [], v
            for s, val in e.values:
                if val != 0 and v & val == val:
                    syms.append(s)
                    rest &= ~val
            return syms if rest == 0 else v
        for s, val in e.values:
            if val == v:
                return s
        return v
    if k == "record":
        out = {}
        for (fn, ft), fv in zip(t[2], v):
            if fv is None and ft[0] == "opt":
                continue
            if ft[0] == "union" and ft[1][0][1] is None and fv[0] == 0:
                continue
            out[fn] = tojson(ft, fv, dates)
        return out
    if k == "opt":
        return None if v is None else tojson(t[1], v, dates)
    if k == "union":
        idx, inner = v
        tag, ct = t[1][idx]
        if ct is None:
            return None
        j = tojson(ct, inner, dates)
        return j if union_untagged(t) else {tag: j}
    if k == "vec":
        return [tojson(t[1], x, dates) for x in v]
    if k == "arr":
        d = t[2]
        fixed = isinstance(d, tuple) and all(l is not None for _, l in d)
        data = [tojson(t[1], x, dates) for x in v[1]]
        return data if fixed else {"shape": list(v[0]), "data": data}
    if k == "map":
        if t[1] == ("prim", "string"):
            return {kk: tojson(t[2], vv, dates) for kk, vv in v}
        return [[tojson(t[1], kk, dates), tojson(t[2], vv, dates)] for kk, vv in v]
    raise ValueError(t)


def ndjson_lines(steps, values, dates="doc"):
    """Value lines (without the header line) of the NDJSON stream."""
    out = []
    for (name, t), v in zip(steps, values):
        if t[0] == "stream":
            for x in v:
                out.append({name: tojson(t[1], x, dates)})
        else:
            out.append({name: tojson(t, v, dates)})
    return out


def json_equal(a, b):
    """JSON values equal, numbers compared numerically; object key order ignored (maps) ."""
    if isinstance(a, bool) or isinstance(b, bool):
        return isinstance(a, bool) and isinstance(b, bool) and a == b
    if isinstance(a, (int, float)) and isinstance(b, (int, float)):
        if isinstance(a, float) and math.isnan(a):
            return isinstance(b, float) and math.isnan(b)
        return a == b
    if isinstance(a, list) and isinstance(b, list):
        return len(a) == len(b) and all(json_equal(x, y) for x, y in zip(a, b))
    if isinstance(a, dict) and isinstance(b, dict):
        return a.keys() == b.keys() and all(json_equal(a[k], b[k]) for k in a)
    return type(a) == type(b) and a == b


def contains(t, pred):
    if t is None:
        return False
    if pred(t):
        return True
    k = t[0]
    if k == "record":
        return any(contains(ft, pred) for _, ft in t[2])
    if k in ("opt", "vec", "arr", "stream"):
        return contains(t[1], pred)
    if k == "union":
        return any(contains(c, pred) for _, c in t[1])
    if k == "map":
        return contains(t[1], pred) or contains(t[2], pred)
    return False


# ------------------------------------------------------------------ protocol schema JSON (docs/reference/protocol-schema.md)
def schema_type(pkg, t, ns=None):
    """JSON (python object) for a type reference as it appears in the schema."""
    k = t[0]
    if k == "prim":
        return t[1]
    if k == "tparam":
        return t[1]
    if k == "named":
        name = t[1] if "." in t[1] else pkg.namespace + "." + t[1]
        if not t[2]:
            return name
        return {"name": name, "typeArguments": [schema_type(pkg, a) for a in t[2]]}
    if k == "opt":
        return [None, schema_type(pkg, t[1])]
    if k == "union":
        cases = t[1]
        if len(cases) == 2 and cases[0][1] is None:
            return [None, schema_type(pkg, cases[1][1])]
        out = []
        for tag, c in cases:
            if c is None:
                out.append(None)
            else:
                out.append({"tag": tag if tag is not None else am.default_tag(c), "type": schema_type(pkg, c)})
        return out
    if k == "vec":
        o = {"items": schema_type(pkg, t[1])}
        if t[2] is not None:
            o["length"] = t[2]
        return {"vector": o}
    if k == "arr":
        o = {"items": schema_type(pkg, t[1])}
        d = t[2]
        if isinstance(d, int):
            o["dimensions"] = d
        elif d is not None:
            if all(n is None and l is None for n, l in d):
                o["dimensions"] = len(d)
            else:
                dims = []
                for n, l in d:
                    e = {}
                    if n is not None:
                        e["name"] = n
                    if l is not None:
                        e["length"] = l
                    dims.append(e)
                o["dimensions"] = dims
        return {"array": o}
    if k == "map":
        return {"map": {"keys": schema_type(pkg, t[1]), "values": schema_type(pkg, t[2])}}
    if k == "stream":
        return {"stream": {"items": schema_type(pkg, t[1])}}
    raise ValueError(t)

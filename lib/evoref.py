"""Reference value conversion between two versions of a type, written from docs/cpp/evolution.md only.

conv(v, a, b) converts canonical value v of concrete type a (am.resolve form, version A) into the acceptable outcomes for
concrete type b (version B). It returns an Outcome:
    alts       list of acceptable values (concrete, canonical python values of type b); empty when only an error is acceptable
    may_err    a runtime error is acceptable ("Runtime errors": numeric overflow, number<->string conversion failure)
    must_err   only a runtime error is acceptable (union case that does not exist in the target version)
    silent     the documentation does not say what happens: nothing is compared below this point

Documented rules used:
  unchanged parts exactly; record fields matched by name (reordering is compatible); removed fields dropped; added fields
  take the "zero" value (0, "", empty vector, null optional/union); T -> T? wraps, T? -> T writes the zero value for null;
  T -> union containing T selects that case, union -> T / smaller union raises for a case the target lacks; optional <-> union
  with null; numbers convert by value, "numeric overflow" may raise and invalid values default to zero; floating point to
  integer "may round"; number <-> string "relies on the standard library numeric parsing utilities" and may raise.
"""
import math, struct

import am

F32_MAX = struct.unpack("<f", struct.pack("<I", 0x7F7FFFFF))[0]
INTS = set(am.INT_RANGE)
FLOATS = {"float32", "float64"}


class Outcome:
    def __init__(self, alts=(), may_err=False, must_err=False, silent=False):
        self.alts, self.may_err, self.must_err, self.silent = list(alts), may_err, must_err, silent

    def __repr__(self):
        return "Outcome(alts=%r%s%s%s)" % (self.alts[:4], ", may_err" if self.may_err else "", ", must_err" if self.must_err else "", ", silent" if self.silent else "")


def exact(v):
    return Outcome([v])


def combine(parts, build):
    """parts: list of Outcome; build(list of values) -> value. Cartesian product of alternatives, capped."""
    must = any(p.must_err for p in parts)
    may = any(p.may_err for p in parts)
    silent = any(p.silent for p in parts)
    if must:
        return Outcome([], may, True, silent)
    combos = [[]]
    for p in parts:
        alts = p.alts if p.alts else [None]
        if len(combos) * len(alts) > 64:
            alts = alts[:1]
            silent = True if len(p.alts) > 1 else silent
        combos = [c + [a] for c in combos for a in alts]
    return Outcome([build(c) for c in combos], may, False, silent)


def f32(x):
    try:
        return struct.unpack("<f", struct.pack("<f", x))[0]
    except OverflowError:
        return math.copysign(math.inf, x)


def zero(t):
    k = t[0]
    if k == "prim":
        n = t[1]
        if n == "bool":
            return False
        if n in INTS or n in ("date", "time", "datetime"):
            return 0
        if n in FLOATS:
            return 0.0
        if n.startswith("complex"):
            return complex(0, 0)
        if n == "string":
            return ""
    if k == "enum":
        return 0
    if k == "opt":
        return None
    if k == "union":
        for i, (_, ct) in enumerate(t[1]):
            if ct is None:
                return (i, None)
        return (0, zero(t[1][0][1]))
    if k == "record":
        return [zero(ft) for _, ft in t[2]]
    if k == "vec":
        return [zero(t[1])] * t[2] if t[2] is not None else []
    if k == "arr":
        d = t[2]
        if isinstance(d, tuple) and all(l is not None for _, l in d):
            shape = tuple(l for _, l in d)
            n = 1
            for s in shape:
                n *= s
            return (shape, [zero(t[1])] * n)
        rank = d if isinstance(d, int) else (len(d) if d is not None else 0)
        return (tuple([0] * rank), [])
    if k == "map":
        return []
    if k == "stream":
        return []
    raise ValueError(t)


def same(a, b):
    """Structural identity of concrete types (enum definitions compared by name/base/values)."""
    if a is None or b is None:
        return a is b
    if a[0] != b[0]:
        return False
    k = a[0]
    if k == "prim":
        return a[1] == b[1]
    if k == "enum":
        ea, eb = a[1], b[1]
        return a[2] == b[2] and ea.values == eb.values and (ea.base or "int32") == (eb.base or "int32") and ea.flags == eb.flags
    if k == "record":
        return a[1] == b[1] and len(a[2]) == len(b[2]) and all(x[0] == y[0] and same(x[1], y[1]) for x, y in zip(a[2], b[2]))
    if k == "opt":
        return same(a[1], b[1])
    if k == "union":
        return len(a[1]) == len(b[1]) and all(same(x[1], y[1]) for x, y in zip(a[1], b[1]))
    if k in ("vec", "arr"):
        return a[2] == b[2] and same(a[1], b[1])
    if k == "map":
        return same(a[1], b[1]) and same(a[2], b[2])
    if k == "stream":
        return same(a[1], b[1])
    return False


def same_entity(a, b):
    """Do two union cases / types denote the same thing across versions (same primitive, same named record/enum, same shape)?"""
    if a is None or b is None:
        return a is b
    if a[0] != b[0]:
        return False
    if a[0] == "record":
        # same name, or the same record under another name (docs: "Renaming a Record" - the old name lives on as an alias)
        return a[1] == b[1] or (len(a[2]) == len(b[2]) and all(x[0] == y[0] and same_entity(x[1], y[1]) for x, y in zip(a[2], b[2])))
    if a[0] == "enum":
        return a[2] == b[2]
    if a[0] == "prim":
        return a[1] == b[1]
    if a[0] == "opt":
        return same_entity(a[1], b[1])
    if a[0] in ("vec", "arr"):
        return a[2] == b[2] and same_entity(a[1], b[1])
    if a[0] == "map":
        return same_entity(a[1], b[1]) and same_entity(a[2], b[2])
    if a[0] == "union":
        return len(a[1]) == len(b[1]) and all(same_entity(x[1], y[1]) for x, y in zip(a[1], b[1]))
    return False


def conv_prim(v, na, nb):
    if na == nb:
        return exact(v)
    if na in INTS and nb in INTS:
        lo, hi = am.INT_RANGE[nb]
        if lo <= v <= hi:
            return exact(v)
        return Outcome([0], may_err=True)
    if na in INTS and nb in FLOATS:
        return exact(f32(float(v)) if nb == "float32" else float(v))
    if na in FLOATS and nb in INTS:
        lo, hi = am.INT_RANGE[nb]
        if math.isnan(v) or math.isinf(v):
            return Outcome([0], may_err=True)
        cands = {math.floor(v), math.ceil(v), int(round(v))}
        ok = [c for c in cands if lo <= c <= hi]
        if len(ok) < len(cands) or not ok:
            return Outcome(sorted(set(ok) | {0}), may_err=True)
        return Outcome(sorted(ok))
    if na == "float32" and nb == "float64":
        return exact(float(v))
    if na == "float64" and nb == "float32":
        if math.isnan(v):
            return exact(v)
        if math.isinf(v):
            return Outcome([v], may_err=True)      # "may result in numeric overflow": an infinity may be reported as one
        if abs(v) > F32_MAX:
            return Outcome([0.0, math.copysign(math.inf, v), math.copysign(F32_MAX, v)], may_err=True)
        return exact(f32(v))
    if nb == "string" and (na in INTS or na in FLOATS):
        return Outcome([("STRING-OF-NUMBER", na, v)], may_err=True)
    if na == "string" and (nb in INTS or nb in FLOATS):
        return Outcome([("NUMBER-OF-STRING", nb, v)], may_err=True)
    return Outcome([], silent=True)


def match_special(alt, actual):
    """Predicates for the standard-library conversions the documentation only names."""
    kind = alt[0]
    if kind == "STRING-OF-NUMBER":
        _, na, v = alt
        if not isinstance(actual, str):
            return False
        try:
            if na in INTS:
                return int(actual.strip()) == v
            x = float(actual.strip())
        except ValueError:
            return False
        if math.isnan(v):
            return math.isnan(x)
        if math.isinf(v):
            return x == v
        return abs(x - v) <= max(1e-5 * abs(v), 1e-6)
    if kind == "NUMBER-OF-STRING":
        _, nb, s = alt
        # the longest numeric prefix the standard library accepts, or zero ("invalid values default to zero")
        import re
        if nb in INTS:
            m = re.match(r"\s*[+-]?\d+", s)
            lo, hi = am.INT_RANGE[nb]
            if m and lo <= int(m.group(0)) <= hi:
                return actual == int(m.group(0)) or (m.end() != len(s) and actual == 0)
            return actual == 0
        m = re.match(r"\s*[+-]?(\d+\.?\d*([eE][+-]?\d+)?|\.\d+([eE][+-]?\d+)?|inf(inity)?|nan)", s, re.I)
        if m:
            try:
                x = float(m.group(0))
            except ValueError:
                return actual == 0
            if nb == "float32":
                x = f32(x)
            if math.isnan(x):
                return isinstance(actual, float) and math.isnan(actual)
            return actual == x or (m.end() != len(s) and actual == 0) or abs(actual - x) <= 1e-6 * abs(x)
        return actual == 0
    return False


def conv(v, a, b):
    if same(a, b):
        return exact(v)
    ka, kb = a[0], b[0]
    # ---- optional on either side
    if ka == "opt" and kb == "opt":
        if v is None:
            return exact(None)
        return conv(v, a[1], b[1])
    if kb == "opt" and ka != "union":
        return conv(v, a, b[1])                    # T -> T?  (Some(conv))
    if ka == "opt" and kb == "union":
        if v is None:
            idx = next((i for i, (_, ct) in enumerate(b[1]) if ct is None), None)
            if idx is None:
                return Outcome([zero(b)], may_err=True)
            return exact((idx, None))
        return conv(v, a[1], b)
    if ka == "opt":
        if v is None:
            return exact(zero(b))                   # "yardl will write the empty string"
        return conv(v, a[1], b)
    # ---- unions
    if ka == "union" and kb == "union":
        idx, inner = v
        ct = a[1][idx][1]
        for j, (_, cb) in enumerate(b[1]):
            if same_entity(ct, cb):
                if ct is None:
                    return exact((j, None))
                return combine([conv(inner, ct, cb)], lambda c, j=j: (j, c[0]))
        return Outcome([], must_err=True)
    if ka == "union":
        idx, inner = v
        ct = a[1][idx][1]
        if kb == "opt":
            if ct is None:
                return exact(None)
            if same_entity(ct, b[1]):
                return conv(inner, ct, b[1])
            return Outcome([], must_err=True)
        if ct is not None and same_entity(ct, b):
            return conv(inner, ct, b)
        if ct is None:
            return Outcome([zero(b)], may_err=True)
        return Outcome([], must_err=True)
    if kb == "union":
        for j, (_, cb) in enumerate(b[1]):
            if cb is not None and same_entity(a, cb):
                return combine([conv(v, a, cb)], lambda c, j=j: (j, c[0]))
        return Outcome([], silent=True)
    if ka != kb:
        return Outcome([], silent=True)
    if ka == "prim":
        return conv_prim(v, a[1], b[1])
    if ka == "enum":
        return Outcome([], silent=True)      # changing enum definitions is documented as incompatible
    if ka == "record":
        olds = dict((fn, (ft, fv)) for (fn, ft), fv in zip(a[2], v))
        parts = []
        for fn, ft in b[2]:
            if fn in olds:
                parts.append(conv(olds[fn][1], olds[fn][0], ft))
            else:
                parts.append(exact(zero(ft)))
        return combine(parts, lambda c: list(c))
    if ka == "vec":
        if a[2] != b[2]:
            return Outcome([], silent=True)
        return combine([conv(x, a[1], b[1]) for x in v], lambda c: list(c))
    if ka == "stream":
        return combine([conv(x, a[1], b[1]) for x in v], lambda c: list(c))
    if ka == "arr":
        if a[2] != b[2]:
            return Outcome([], silent=True)
        shape, flat = v
        return combine([conv(x, a[1], b[1]) for x in flat], lambda c, shape=shape: (shape, list(c)))
    if ka == "map":
        parts = []
        for kk, vv in v:
            parts.append(conv(kk, a[1], b[1]))
            parts.append(conv(vv, a[2], b[2]))
        return combine(parts, lambda c: [(c[i], c[i + 1]) for i in range(0, len(c), 2)])
    return Outcome([], silent=True)


def matches(t, alt, actual):
    """Does the decoded actual value (type t) equal the alternative, which may contain special predicates at prim leaves?"""
    import refcodec
    if isinstance(alt, tuple) and alt and alt[0] in ("STRING-OF-NUMBER", "NUMBER-OF-STRING"):
        return match_special(alt, actual)
    k = t[0]
    if k in ("prim", "enum"):
        try:
            return refcodec.canon(t, alt) == refcodec.canon(t, actual)
        except Exception:
            return False
    if k == "opt":
        if alt is None or actual is None:
            return alt is None and actual is None
        return matches(t[1], alt, actual)
    if k == "union":
        if alt[0] != actual[0]:
            return False
        ct = t[1][alt[0]][1]
        return True if ct is None else matches(ct, alt[1], actual[1])
    if k == "record":
        return len(alt) == len(actual) and all(matches(ft, x, y) for (_, ft), x, y in zip(t[2], alt, actual))
    if k in ("vec", "stream"):
        return len(alt) == len(actual) and all(matches(t[1], x, y) for x, y in zip(alt, actual))
    if k == "arr":
        return tuple(alt[0]) == tuple(actual[0]) and len(alt[1]) == len(actual[1]) and all(matches(t[1], x, y) for x, y in zip(alt[1], actual[1]))
    if k == "map":
        if len(alt) != len(actual):
            return False
        used = set()
        for kk, vv in alt:
            hit = next((i for i, (ak, av) in enumerate(actual) if i not in used and matches(t[1], kk, ak) and matches(t[2], vv, av)), None)
            if hit is None:
                return False
            used.add(hit)
        return True
    return False

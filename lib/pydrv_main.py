"""Generic translator over a generated yardl Python package (same stdin/stdout framing as the C++ driver).
usage: pydrv_main.py <py output dir> <module name>
request : "<proto> <mode> <bufsize> <nbytes>\n" + bytes      mode in b2b b2n n2b n2n
response: "<OK|ERR> <nout> <nmsg>\n" + out bytes + message
bufsize semantics (Python only): 0/1 = plain copy_to; 2 = pass stream iterables through a generator wrapper;
3 = materialise every stream into a list before writing."""
import importlib, io, sys, types as pytypes

sys.path.insert(0, sys.argv[1])
mod = importlib.import_module(sys.argv[2])
inp, outp = sys.stdin.buffer, sys.stdout.buffer


class ShortReader(io.RawIOBase):
    """Raw stream that answers readinto() with short reads at chosen absolute positions."""

    def __init__(self, data, cuts):
        self.data, self.pos, self.cuts = data, 0, sorted(cuts)

    def readable(self):
        return True

    def readinto(self, b):
        n = min(len(b), len(self.data) - self.pos)
        for c in self.cuts:
            if self.pos < c < self.pos + n:
                n = c - self.pos
                break
        b[:n] = self.data[self.pos:self.pos + n]
        self.pos += n
        return n


completed = [0]


def wrap_writer(w, how):
    """Counts completed step writes (to attribute a failure to a step) and optionally re-wraps stream iterables."""
    completed[0] = 0
    for name in dir(w):
        if name.startswith("write_"):
            orig = getattr(w, name)

            def mk(orig):
                def f(value):
                    if how >= 100 and (isinstance(value, (pytypes.GeneratorType,)) or hasattr(value, "__next__")):
                        # k write calls: split the items at the gaps selected by the bit mask, empty lists interleaved
                        items, mask = list(value), how - 100
                        chunks, cur = [], []
                        for idx, it in enumerate(items):
                            cur.append(it)
                            if idx < len(items) - 1 and (mask >> idx) & 1:
                                chunks.append(cur)
                                cur = []
                        chunks.append(cur)
                        r = None
                        for ci, ch in enumerate(chunks):
                            r = orig(ch if ci % 2 == 0 else (x for x in ch))
                            orig([])
                        completed[0] += 1
                        return r
                    if how >= 2 and (isinstance(value, (pytypes.GeneratorType,)) or hasattr(value, "__next__")):
                        if how == 3:
                            value = list(value)
                        else:
                            value = (x for x in value)
                    r = orig(value)
                    completed[0] += 1
                    return r
                return f
            setattr(w, name, mk(orig))
    return w


def run(proto, mode, bs, data):
    if mode[0] == "b":
        src = io.BytesIO(data)
        if bs >= 1000:      # short-read experiment: cut positions encoded as bs = 1000 + pos (single cut)
            src = ShortReader(data, [bs - 1000])
        r = getattr(mod, "Binary%sReader" % proto)(src)
    else:
        r = getattr(mod, "NDJson%sReader" % proto)(io.StringIO(data.decode("utf-8")))
    if mode[2] == "b":
        out = io.BytesIO()
        w = getattr(mod, "Binary%sWriter" % proto)(out)
    else:
        out = io.StringIO()
        w = getattr(mod, "NDJson%sWriter" % proto)(out)
    try:
        with r:
            with wrap_writer(w, bs if bs < 1000 else 0) as ww:
                r.copy_to(ww)
        err = None
    except BaseException as e:  # noqa
        err = "@step=%d %s: %s" % (completed[0], type(e).__name__, e)
        import os as _os
        if _os.environ.get("VERIF_PYTRACE"):
            import traceback as _tb
            err += "\n" + "".join(_tb.format_exc().splitlines(True)[-14:])
    o = out.getvalue()
    if isinstance(o, str):
        o = o.encode("utf-8")
    return err, o


while True:
    line = inp.readline()
    if not line:
        break
    proto, mode, bs, n = line.split()
    data = inp.read(int(n))
    try:
        err, o = run(proto.decode(), mode.decode(), int(bs), data)
    except BaseException as e:  # noqa
        err, o = "driver: %s: %s" % (type(e).__name__, e), b""
    m = (err or "").encode("utf-8")
    outp.write(b"%s %d %d\n" % (b"OK" if err is None else b"ERR", len(o), len(m)) + o + m)
    outp.flush()

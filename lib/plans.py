"""Serialization plans: extraction from generated binary/protocols.cc, binary.py, ndjson.py and +binary/*.m, normalised to

  ('prim', name) | ('enum', base) | ('opt', p) | ('union', has_null, (p...)) | ('vec', p) | ('fvec', p, n) |
  ('farr', p, dims) | ('arr', p, rank) | ('dynarr', p) | ('map', k, v) | ('rec', ((field, p)...)) | ('stream', p)

and the reference plan derived from the abstract model."""
import os, re

import am, refcodec


class Unparsed(Exception):
    pass


# ------------------------------------------------------------------ reference plan
def ref_plan(t):
    k = t[0]
    if k == "prim":
        return ("prim", t[1])
    if k == "enum":
        return ("enum", refcodec.enum_base(t[1]))
    if k == "record":
        return ("rec", tuple((fn, ref_plan(ft)) for fn, ft in t[2]))
    if k == "opt":
        return ("opt", ref_plan(t[1]))
    if k == "union":
        cases = t[1]
        has_null = cases[0][1] is None
        return ("union", has_null, tuple(ref_plan(c) for _, c in cases if c is not None))
    if k == "vec":
        return ("vec", ref_plan(t[1])) if t[2] is None else ("fvec", ref_plan(t[1]), t[2])
    if k == "arr":
        d = t[2]
        if d is None:
            return ("dynarr", ref_plan(t[1]))
        if isinstance(d, int):
            return ("arr", ref_plan(t[1]), d)
        if all(l is not None for _, l in d):
            return ("farr", ref_plan(t[1]), tuple(l for _, l in d))
        return ("arr", ref_plan(t[1]), len(d))
    if k == "map":
        return ("map", ref_plan(t[1]), ref_plan(t[2]))
    if k == "stream":
        return ("stream", ref_plan(t[1]))
    raise ValueError(t)


def ref_union_meta(t, out=None):
    """Per union of the concrete type t, in the order in which the plan extractors meet them: (NDJSON tagging, tags).
    Tagging follows the documented rule (untagged iff the cases serialize to pairwise distinct JSON datatypes); a union that
    has a type parameter as a case is 'param' (the documentation does not say when the decision is taken)."""
    out = [] if out is None else out
    if t is None:
        return out
    k = t[0]
    if k == "record":
        for _, ft in t[2]:
            ref_union_meta(ft, out)
    elif k in ("opt", "vec", "arr", "stream"):
        ref_union_meta(t[1], out)
    elif k == "map":
        ref_union_meta(t[1], out)
        ref_union_meta(t[2], out)
    elif k == "union":
        flag = "param" if len(t) > 2 else ("untagged" if refcodec.union_untagged(t) else "tagged")
        out.append((flag, tuple(tag for tag, c in t[1] if c is not None)))
        for _, c in t[1]:
            ref_union_meta(c, out)
    return out


def strip_meta(plan, metas=None):
    """(plan without the ('meta', ...) element of union nodes, [meta, ...] in traversal order)"""
    metas = [] if metas is None else metas
    if not isinstance(plan, tuple):
        return plan, metas
    if len(plan) == 4 and plan[0] == "union" and isinstance(plan[3], tuple) and plan[3][:1] == ("meta",):
        metas.append(plan[3][1:])
        return ("union", plan[1], tuple(strip_meta(x, metas)[0] for x in plan[2])), metas
    return tuple(strip_meta(x, metas)[0] for x in plan), metas


def py_union_cases(types_text):
    """{'Int32OrString.Int32': (index, tag)} from the union case classes of a generated types.py"""
    out = {}
    for m in re.finditer(r'^(\w+)\.(\w+) = type\("[^"]*", \(\w+,\), \{"index": (\d+), "tag": "([^"]*)"\}\)', types_text, re.M):
        out[m.group(1) + "." + m.group(2)] = (int(m.group(3)), m.group(4))
    return out


def matlab_union_cases(nsdir, nsname):
    """{'ns.Int32OrString.Int32': index} from the static factory methods of the generated union classes"""
    out = {}
    for fn in os.listdir(nsdir):
        if not fn.endswith(".m"):
            continue
        txt = open(os.path.join(nsdir, fn)).read()
        if "< yardl.Union" not in txt:
            continue
        for m in re.finditer(r"function res = (\w+)\(value\)\n\s+res = ([\w.]+)\((\d+), value\);", txt):
            out[m.group(2) + "." + m.group(1)] = int(m.group(3))
    return out


# ------------------------------------------------------------------ generic call-expression parser (Python / MATLAB)
TOKEN = re.compile(r"\s*(?:(?P<id>@?[A-Za-z_][A-Za-z0-9_.]*)|(?P<num>-?\d+)|(?P<str>'[^']*'|\"[^\"]*\")|(?P<p>[()\[\]{},]))")


def tokenize(s):
    pos, out = 0, []
    s = s.strip()
    while pos < len(s):
        m = TOKEN.match(s, pos)
        if not m:
            raise Unparsed("cannot tokenize %r" % s[pos:pos + 40])
        pos = m.end()
        for k in ("id", "num", "str", "p"):
            if m.group(k) is not None:
                out.append((k, m.group(k)))
                break
    return out


def parse_expr(tokens, i=0):
    """Returns (node, next index). Nodes: ('call', name, [args]) | ('name', n) | ('num', n) | ('str', s) | ('list', [..])"""
    k, v = tokens[i]
    if k == "id":
        if i + 1 < len(tokens) and tokens[i + 1] == ("p", "("):
            args, j = parse_list(tokens, i + 2, ")")
            return ("call", v, args), j
        return ("name", v), i + 1
    if k == "num":
        return ("num", int(v)), i + 1
    if k == "str":
        return ("str", v[1:-1]), i + 1
    if v in "[({":
        close = {"[": "]", "(": ")", "{": "}"}[v]
        items, j = parse_list(tokens, i + 1, close)
        return ("list", items), j
    raise Unparsed("unexpected token %r" % (tokens[i],))


def parse_list(tokens, i, close):
    items = []
    while tokens[i] != ("p", close):
        if tokens[i] == ("p", ","):
            i += 1
            continue
        node, i = parse_expr(tokens, i)
        items.append(node)
    return items, i + 1


def parse(s):
    s = re.sub(r"(?<=\w)\[[\w, .]*\]", "", s)      # generic subscripts such as TOrU[T, U].T
    toks = tokenize(s)
    node, j = parse_expr(toks, 0)
    if j != len(toks):
        raise Unparsed("trailing tokens in %r" % s[:80])
    return node


# ------------------------------------------------------------------ Python (binary.py / ndjson.py)
PY_PRIM = re.compile(r"^_(?:binary|ndjson)\.(\w+)_(?:serializer|converter)$")


def py_plan(node, records, env=None, kind="Serializer"):
    """records: {class name: (params, [(field, expr node)])}"""
    env = env or {}
    t = node[0]
    if t == "name":
        n = node[1]
        if n in env:
            return env[n]
        m = PY_PRIM.match(n)
        if m:
            p = m.group(1)
            return ("prim", {"size": "size", "bool": "bool"}.get(p, p))
        raise Unparsed("python name %s" % n)
    if t != "call":
        raise Unparsed("python node %r" % (node,))
    name, args = node[1], node[2]
    short = name.split(".")[-1]
    for suffix in ("Serializer", "Converter"):
        if short.endswith(suffix):
            base = short[:-len(suffix)]
            break
    else:
        raise Unparsed("python call %s" % name)
    lib = name.startswith("_binary.") or name.startswith("_ndjson.")
    if not lib:
        if base not in records:
            raise Unparsed("unknown python record serializer %s" % short)
        params, fields = records[base]
        sub = dict(zip(params, [py_plan(a, records, env, kind) for a in args]))
        return ("rec", tuple((fn, py_plan(fe, records, sub, kind)) for fn, fe in fields))
    if base in ("Enum", "Flags"):
        if kind == "Serializer":
            return ("enum", py_plan(args[0], records, env, kind)[1])
        b = args[1][1]          # np.int32
        return ("enum", b.split(".")[-1])
    if base == "Optional":
        return ("opt", py_plan(args[0], records, env, kind))
    if base == "Union":
        cases = args[1][1]
        has_null = cases and cases[0] == ("name", "None")
        plans = []
        known, tags, idx_ok, over_param = records.get("__union_cases__"), [], True, False
        for c in cases:
            if c == ("name", "None"):
                continue
            if known is not None and c[1][0][0] == "name":
                info = known.get(".".join(c[1][0][1].split(".")[-2:]))
                if info is None:
                    raise Unparsed("union case class %s not found in types.py" % c[1][0][1])
                idx_ok = idx_ok and info[0] == len(plans)
                tags.append(info[1])
            over_param = over_param or (c[1][1][0] == "name" and c[1][1][1] in env)
            plans.append(py_plan(c[1][1], records, env, kind))
        if known is None:
            return ("union", bool(has_null), tuple(plans))
        flag = None
        if kind == "Converter":
            if len(args) < 3 or args[2] not in (("name", "True"), ("name", "False")):
                raise Unparsed("UnionConverter without a simplified flag")
            flag = "param" if over_param else ("untagged" if args[2][1] == "True" else "tagged")
        return ("union", bool(has_null), tuple(plans), ("meta", flag, tuple(tags), idx_ok))
    if base == "Vector":
        return ("vec", py_plan(args[0], records, env, kind))
    if base == "FixedVector":
        return ("fvec", py_plan(args[0], records, env, kind), args[1][1])
    if base == "FixedNDArray":
        return ("farr", py_plan(args[0], records, env, kind), tuple(x[1] for x in args[1][1]))
    if base == "NDArray":
        return ("arr", py_plan(args[0], records, env, kind), args[1][1])
    if base == "DynamicNDArray":
        return ("dynarr", py_plan(args[0], records, env, kind))
    if base == "Map":
        return ("map", py_plan(args[0], records, env, kind), py_plan(args[1], records, env, kind))
    if base == "Stream":
        return ("stream", py_plan(args[0], records, env, kind))
    raise Unparsed("python serializer %s" % name)


def py_records_binary(text):
    out = {}
    for m in re.finditer(r"^class (\w+)Serializer\((?:[^\n]*)\):\n    def __init__\(self(.*?)\) -> None:\n        super\(\).__init__\((\[.*?\])\)\n", text, re.M | re.S):
        params = re.findall(r"(\w+_serializer):", m.group(2))
        lst = parse(m.group(3))
        fields = [(it[1][0][1], it[1][1]) for it in lst[1]]
        out[m.group(1)] = (params, fields)
    return out


def py_records_ndjson(text):
    out = {}
    for m in re.finditer(r"^class (\w+)Converter\((?:[^\n]*)\):\n    def __init__\(self(.*?)\) -> None:\n(.*?)\n        super\(\)", text, re.M | re.S):
        params = re.findall(r"(\w+_converter):", m.group(2))
        fields = []
        for fm in re.finditer(r"^        self\._(\w+)_converter = (.*)$", m.group(3), re.M):
            fields.append((fm.group(1), parse(fm.group(2))))
        out[m.group(1)] = (params, fields)
    return out


def py_step_plans(text, kind):
    """{(protocol, step): plan expr node} from `def _write_<step>` bodies."""
    out = {}
    cls_re = r"^class (?:Binary|NDJson)(\w+)Writer\(.*?(?=^class |\Z)"
    for cm in re.finditer(cls_re, text, re.M | re.S):
        body = cm.group(0)
        if kind == "Serializer":
            for m in re.finditer(r"def _write_(\w+)\(self, value[^\n]*\n        (.*)\.write\(self\._stream, value\)\n", body):
                out[(cm.group(1), m.group(1))] = parse(m.group(2))
        else:
            for m in re.finditer(r"def _write_(\w+)\(self, value[^\n]*\n        converter = (.*)\n", body):
                out[(cm.group(1), m.group(1))] = parse(m.group(2))
    return out


# ------------------------------------------------------------------ MATLAB (+binary/*.m)
def matlab_plan(node, records, env=None):
    env = env or {}
    t = node[0]
    if t == "name":
        n = node[1]
        if n in env:
            return env[n]
        m = re.match(r"^yardl\.binary\.(\w+)Serializer$", n)
        if m:
            p = m.group(1).lower()
            if p == "none":
                return ("none",)
            return ("prim", p)
        raise Unparsed("matlab name %s" % n)
    if t != "call":
        raise Unparsed("matlab node %r" % (node,))
    name, args = node[1], node[2]
    short = name.split(".")[-1]
    if not name.startswith("yardl.binary."):
        cls = short[:-len("Serializer")] if short.endswith("Serializer") else short
        if cls not in records:
            raise Unparsed("unknown matlab record serializer %s" % name)
        params, fields = records[cls]
        sub = dict(zip(params, [matlab_plan(a, records, env) for a in args]))
        return ("rec", tuple((fn, matlab_plan(fe, records, sub)) for fn, fe in fields))
    base = short[:-len("Serializer")]
    if base == "Enum":
        return ("enum", matlab_plan(args[2], records, env)[1])
    if base == "Optional":
        return ("opt", matlab_plan(args[0], records, env))
    if base == "Union":
        plans = [matlab_plan(a, records, env) for a in args[1][1]]
        has_null = bool(plans) and plans[0] == ("none",)
        known = records.get("__union_cases__")
        if known is None:
            return ("union", has_null, tuple(p for p in plans if p != ("none",)))
        if len(args) < 3 or len(args[2][1]) != len(plans):
            raise Unparsed("matlab UnionSerializer without one factory per case")
        idx_ok, pos = True, 0
        for f in args[2][1]:
            if f == ("name", "yardl.None"):
                idx_ok = idx_ok and pos == 0 and has_null
                continue
            pos += 1
            if f[0] != "name":
                raise Unparsed("matlab union factory %r" % (f,))
            # a factory that no generated union class defines is a deviation, not a parsing problem
            idx_ok = idx_ok and known.get(f[1].lstrip("@")) == pos
        return ("union", has_null, tuple(p for p in plans if p != ("none",)), ("meta", None, (), idx_ok))
    if base == "Vector":
        return ("vec", matlab_plan(args[0], records, env))
    if base == "FixedVector":
        return ("fvec", matlab_plan(args[0], records, env), args[1][1])
    if base == "FixedNDArray":
        # MATLAB arrays are created with dimensions reversed with respect to the model (docs/matlab/language.md)
        return ("farr", matlab_plan(args[0], records, env), tuple(reversed([x[1] for x in args[1][1]])))
    if base == "NDArray":
        return ("arr", matlab_plan(args[0], records, env), args[1][1])
    if base == "DynamicNDArray":
        return ("dynarr", matlab_plan(args[0], records, env))
    if base == "Map":
        return ("map", matlab_plan(args[0], records, env), matlab_plan(args[1], records, env))
    if base == "Stream":
        return ("stream", matlab_plan(args[0], records, env))
    raise Unparsed("matlab serializer %s" % name)


def matlab_records(bindir):
    """{class: (params, [(field, node)])}; field names from the write_ call `value.<f>`."""
    out = {}
    for f in os.listdir(bindir):
        if not f.endswith("Serializer.m"):
            continue
        txt = open(os.path.join(bindir, f)).read()
        cls = f[:-len("Serializer.m")]
        m = re.search(r"function self = \w+\(([^)]*)\)", txt)
        params = [p.strip() for p in m.group(1).split(",") if p.strip()] if m else []
        exprs = [parse(x.group(2)) for x in re.finditer(r"field_serializers\{(\d+)\} = (.*);", txt)]
        wm = re.search(r"self\.write_\(outstream, (.*)\);", txt)
        names = [x.strip().split(".", 1)[1] for x in wm.group(1).split(",")] if wm else []
        if len(names) != len(exprs):
            raise Unparsed("matlab record %s: %d fields vs %d serializers" % (cls, len(names), len(exprs)))
        out[cls] = (params, list(zip(names, exprs)))
    return out


def matlab_step_plans(bindir):
    out = {}
    for f in os.listdir(bindir):
        if not f.endswith("Writer.m"):
            continue
        txt = open(os.path.join(bindir, f)).read()
        proto = f[:-len("Writer.m")]
        for m in re.finditer(r"self\.(\w+)_serializer = (.*);", txt):
            out[(proto, m.group(1))] = parse(m.group(2))
    return out


# ------------------------------------------------------------------ C++ (binary/protocols.cc)
CPP_INT = {"bool": "bool", "int8_t": "int8", "uint8_t": "uint8", "int16_t": "int16", "uint16_t": "uint16", "int32_t": "int32", "uint32_t": "uint32",
           "int64_t": "int64", "uint64_t": "uint64", "yardl::Size": "size", "size_t": "size"}
CPP_FLOAT = {"float": "float32", "double": "float64", "std::complex<float>": "complexfloat32", "std::complex<double>": "complexfloat64"}


def split_template(s):
    """'Name<a, b<c>, d>' -> ('Name', ['a', 'b<c>', 'd'])"""
    s = s.strip()
    i = s.find("<")
    if i < 0 or not s.endswith(">"):
        return s, []
    name, inner = s[:i], s[i + 1:-1]
    args, depth, cur = [], 0, ""
    for ch in inner:
        if ch == "<":
            depth += 1
        elif ch == ">":
            depth -= 1
        if ch == "," and depth == 0:
            args.append(cur.strip())
            cur = ""
        else:
            cur += ch
    if cur.strip():
        args.append(cur.strip())
    return name, args


def cpp_plan(writer, typ, ctx):
    """writer: text of a writer function (possibly templated), typ: the C++ type text it is applied to.
    ctx: {'records': {qualified fn name: [(field, type, writer)]}, 'enums': {cpp type: base}, 'aliases': {...}}"""
    name, args = split_template(writer)
    short = name.split("::")[-1]
    if name.startswith("yardl::binary::"):
        if short == "WriteInteger":
            t = ctx["typedefs"].get(typ, typ)
            if t not in CPP_INT:
                raise Unparsed("WriteInteger on %s" % typ)
            return ("prim", CPP_INT[t])
        if short == "WriteFloatingPoint":
            if typ not in CPP_FLOAT:
                raise Unparsed("WriteFloatingPoint on %s" % typ)
            return ("prim", CPP_FLOAT[typ])
        if short in ("WriteString", "WriteDate", "WriteTime", "WriteDateTime"):
            return ("prim", short[5:].lower())
        if short in ("WriteEnum", "WriteFlags"):
            e = args[0]
            if e not in ctx["enums"]:
                raise Unparsed("enum %s not found" % e)
            return ("enum", ctx["enums"][e])
        if short == "WriteOptional":
            return ("opt", cpp_plan(args[1], args[0], ctx))
        if short == "WriteVector":
            return ("vec", cpp_plan(args[1], args[0], ctx))
        if short == "WriteArray":
            return ("fvec", cpp_plan(args[1], args[0], ctx), int(args[2]))
        if short == "WriteFixedNDArray":
            return ("farr", cpp_plan(args[1], args[0], ctx), tuple(int(a) for a in args[2:]))
        if short == "WriteNDArray":
            return ("arr", cpp_plan(args[1], args[0], ctx), int(args[2]))
        if short == "WriteDynamicNDArray":
            return ("dynarr", cpp_plan(args[1], args[0], ctx))
        if short == "WriteMap":
            return ("map", cpp_plan(args[2], args[0], ctx), cpp_plan(args[3], args[1], ctx))
        if short == "WriteBlock":
            return ("stream", cpp_plan(args[1], args[0], ctx))
        raise Unparsed("yardl::binary::%s" % short)
    if short == "WriteUnion":
        pairs = [(args[i], args[i + 1]) for i in range(0, len(args), 2)]
        has_null = pairs and pairs[0][1].endswith("WriteMonostate")
        return ("union", bool(has_null), tuple(cpp_plan(w, t, ctx) for t, w in pairs if not w.endswith("WriteMonostate")))
    # generated alias writer: ns::binary::WriteAlias<T..., WriteT...> forwards to the writer of the underlying type
    if name in ctx.get("alias_writers", {}):
        tparams, wparams, inner, atyp = ctx["alias_writers"][name]
        aname = split_template(atyp)[0]
        utp, under = ctx["usings"].get(aname, ([], None))
        if under is None:
            raise Unparsed("alias type %s not found" % aname)
        subs = list(zip(tparams, args[:len(tparams)])) + list(zip(wparams, args[len(tparams):]))
        for a, b in subs:
            inner = re.sub(r"\b%s\b" % re.escape(a), b, inner)
            under = re.sub(r"\b%s\b" % re.escape(a), b, under)
        return cpp_plan(inner, under, ctx)
    # generated record writer: ns::binary::WriteRec<T..., WriteT...>
    key = name
    if key not in ctx["records"]:
        raise Unparsed("unknown writer %s" % name)
    tparams, wparams, fields = ctx["records"][key]
    sub_t = dict(zip(tparams, args[:len(tparams)]))
    sub_w = dict(zip(wparams, args[len(tparams):]))
    out = []
    for fn, ft, fw in fields:
        ft2, fw2 = ft, fw
        for a, b in list(sub_t.items()) + list(sub_w.items()):
            ft2 = re.sub(r"\b%s\b" % re.escape(a), b, ft2)
            fw2 = re.sub(r"\b%s\b" % re.escape(a), b, fw2)
        out.append((fn, cpp_plan(fw2, ft2, ctx)))
    return ("rec", tuple(out))


def cpp_context(cppdir):
    """Parses types.h (enum bases, aliases) and binary/protocols.cc (record writer functions)."""
    ctx = {"records": {}, "enums": {}, "typedefs": {}}
    for hdr in ["types.h"]:
        txt = open(os.path.join(cppdir, hdr)).read()
        ns = None
        for line in txt.split("\n"):
            m = re.match(r"^namespace ([\w:]+) \{", line)
            if m:
                ns = m.group(1)
            m = re.match(r"^enum class (\w+)(?: : (\w+))? \{", line)
            if m:
                ctx["enums"]["%s::%s" % (ns, m.group(1))] = CPP_INT.get(m.group(2) or "int32_t", "int32")
            m = re.match(r"^struct (\w+) : yardl::BaseFlags<(\w+), \w+> \{", line)
            if m:
                ctx["enums"]["%s::%s" % (ns, m.group(1))] = CPP_INT.get(m.group(2), m.group(2))
    btxt = open(os.path.join(cppdir, "binary", "protocols.cc")).read()
    cur_ns = None
    for m in re.finditer(r"^namespace ([\w:]+) \{|^(template ?<([^\n]*)>\n)?\[\[maybe_unused\]\] void (Write\w+)\(yardl::binary::CodedOutputStream& stream, ([^\n]*) const& value\) \{\n(.*?)\n\}\n", btxt, re.M | re.S):
        if m.group(1):
            cur_ns = m.group(1)
            continue
        tdecl, fn, typ, body = m.group(3) or "", m.group(4), m.group(5), m.group(6)
        # template parameters in declaration order (types and writer functions are interleaved)
        tparams = re.findall(r"(?:typename|yardl::binary::Writer<\w+>) (\w+)", tdecl)
        wparams = []
        fields = []
        if "IsTriviallySerializable" in body:
            body = body.split("}\n", 1)[1] if "}\n" in body else body
        for fm in re.finditer(r"^\s*(.*)\(stream, value\.(\w+)\);$", body, re.M):
            fields.append((fm.group(2), None, fm.group(1).strip()))
        am_ = re.search(r"^\s*(.*)\(stream, value\);$", body, re.M)
        if not fields and am_:
            ctx.setdefault("alias_writers", {})["%s::%s" % (cur_ns, fn)] = (tparams, wparams, am_.group(1).strip(), typ)
            continue
        ctx["records"]["%s::%s" % (cur_ns, fn)] = (tparams, wparams, fields, typ)
    # field C++ types from types.h struct bodies
    ttxt = open(os.path.join(cppdir, "types.h")).read()
    structs = {}
    ns = None
    cur = None
    for line in ttxt.split("\n"):
        m = re.match(r"^namespace ([\w:]+) \{", line)
        if m:
            ns = m.group(1)
        m = re.match(r"^struct (\w+) \{", line)
        if m:
            cur = "%s::%s" % (ns, m.group(1))
            structs[cur] = {}
            continue
        if cur:
            fm = re.match(r"^  (.+) (\w+)\{\};$", line)
            if fm:
                structs[cur][fm.group(2)] = fm.group(1)
            if line.startswith("};"):
                cur = None
    usings = {}
    ns = None
    for m in re.finditer(r"^namespace ([\w:]+) \{|^(?:template <([^\n]*)>\n)?using (\w+) = (.*);$", ttxt, re.M):
        if m.group(1):
            ns = m.group(1)
            continue
        usings["%s::%s" % (ns, m.group(3))] = (re.findall(r"typename (\w+)", m.group(2) or ""), m.group(4))
    ctx["usings"] = usings
    fixed = {}
    for key, (tparams, wparams, fields, typ) in ctx["records"].items():
        sname = split_template(typ)[0]
        st = structs.get(sname, {})
        fl = []
        for fn, _, fw in fields:
            fl.append((fn, st.get(fn, "?"), fw))
        fixed[key] = (tparams, wparams, fl)
    ctx["records"] = fixed
    ctx["structs"] = structs
    return ctx


def cpp_step_plans(cppdir):
    """{(protocol, CppStepName): (writer expr, type)} from the Write<Step>Impl bodies of the binary writer."""
    btxt = open(os.path.join(cppdir, "binary", "protocols.cc")).read()
    out = {}
    for m in re.finditer(r"^void (\w+)Writer::Write(\w+)Impl\((.*) const& value\) \{\n  (.*)\(stream_, value\);\n\}", btxt, re.M):
        out[(m.group(1), m.group(2))] = (m.group(4).strip(), m.group(3))
    return out

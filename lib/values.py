"""Canonical value enumerators: Values(ctype, k) = every value that deviates from the all-defaults value in <= k
leaf positions / lengths / case choices, over small ordered edge-value domains (simplest first)."""
import math, struct

import am

F32_MAX = struct.unpack("<f", struct.pack("<I", 0x7F7FFFFF))[0]


def prim_domain(name, json_safe=False):
    if name == "bool":
        return [False, True]
    if name in am.INT_RANGE:
        lo, hi = am.INT_RANGE[name]
        d = [0, 1, 127, 128, hi]
        if lo < 0:
            d = [0, 1, -1, 127, -128, lo, hi] if name != "int8" else [0, 1, -1, lo, hi]
        if name == "uint8":
            d = [0, 1, 127, 128, 255]
        return d
    if name == "float32":
        d = [0.0, -0.0, 1.5, -2.25, F32_MAX, 1.401298464324817e-45]
        return d if json_safe else d + [math.inf, -math.inf, math.nan]
    if name == "float64":
        d = [0.0, -0.0, 1.5, -2.25, 1.7976931348623157e308, 5e-324, 0.1]
        return d if json_safe else d + [math.inf, -math.inf, math.nan]
    if name == "complexfloat32":
        d = [complex(0, 0), complex(1.5, -2.25), complex(-0.0, F32_MAX)]
        return d if json_safe else d + [complex(math.nan, math.inf)]
    if name == "complexfloat64":
        d = [complex(0, 0), complex(1.5, -2.25), complex(-0.0, 1e300)]
        return d if json_safe else d + [complex(math.nan, -math.inf)]
    if name == "string":
        return ["", "a", "héllo 世界 \U0001F600", "q\"uo\\te\nnl\ttab", "x" * 200]
    if name == "date":
        return [0, 1, -1, 18262, 47482]
    if name == "time":
        return [0, 1, 86399999999999, 39025777888999]
    if name == "datetime":
        return [0, 1, -1, 1685471816708792349]
    raise ValueError(name)


def enum_domain(e):
    vals = [v for _, v in e.values]
    base = am.PRIM_ALIASES.get(e.base, e.base) if e.base else "int32"
    lo, hi = am.INT_RANGE[base]
    if e.flags:
        d = [0] + vals
        if len(vals) >= 2:
            d.append(vals[0] | vals[1])
        allbits = 0
        for v in vals:
            allbits |= v
        undefined = next((b for b in (1 << i for i in range(64)) if not allbits & b and b <= hi), None)
        if undefined is not None:           # every bit of the base type may be defined
            d.append(undefined)             # only an undefined bit
            d.append(vals[0] | undefined)   # defined + undefined bit
        return d
    d = list(vals)
    undefined = next((x for x in range(0, 1000) if x not in vals and lo <= x <= hi), None)
    if undefined is not None:
        d.append(undefined)
    if lo < 0 and -7 not in vals:
        d.append(-7)
    return d


def vals(t, k, json_safe=False):
    """Returns list of (value, deviations) with deviations <= k, default first."""
    kind = t[0]
    if kind == "prim":
        d = prim_domain(t[1], json_safe)
        return [(d[0], 0)] + ([(x, 1) for x in d[1:]] if k >= 1 else [])
    if kind == "enum":
        d = enum_domain(t[1])
        # default (zero-initialised in C++) need not be a defined symbol; use the first listed value as default
        return [(d[0], 0)] + ([(x, 1) for x in d[1:]] if k >= 1 else [])
    if kind == "opt":
        out = [(None, 0)]
        if k >= 1:
            out += [(v, 1 + dv) for v, dv in vals(t[1], k - 1, json_safe)]
        return out
    if kind == "union":
        out = []
        for i, (_, ct) in enumerate(t[1]):
            cost = 0 if i == 0 else 1
            if cost > k:
                continue
            if ct is None:
                out.append(((i, None), cost))
            else:
                out += [((i, v), cost + dv) for v, dv in vals(ct, k - cost, json_safe)]
        return out
    if kind == "record":
        return [(list(c), dv) for c, dv in _product([ft for _, ft in t[2]], k, json_safe)]
    if kind == "vec":
        if t[2] is not None:
            return [(list(c), dv) for c, dv in _product([t[1]] * t[2], k, json_safe)]
        out = [([], 0)]
        if k >= 1:
            out += [([v], 1 + dv) for v, dv in vals(t[1], k - 1, json_safe)]
            for c, dv in _product([t[1]] * 2, k - 1, json_safe):
                out.append((list(c), 1 + dv))
            d0 = vals(t[1], 0, json_safe)[0][0]
            out.append(([d0] * 3, 1))
        return out
    if kind == "arr":
        d = t[2]
        inner = vals(t[1], max(k - 1, 0), json_safe)
        d0 = inner[0][0]
        nz = [v for v, dv in inner if dv == 1][:3]
        if isinstance(d, tuple) and all(l is not None for _, l in d):
            shape = tuple(l for _, l in d)
            n = 1
            for s in shape:
                n *= s
            out = [((shape, [d0] * n), 0)]
            if k >= 1:
                for x in nz:
                    out.append(((shape, [x] + [d0] * (n - 1)), 1))
                    out.append(((shape, [d0] * (n - 1) + [x]), 1))
            return out
        rank = d if isinstance(d, int) else (len(d) if d is not None else None)
        if rank is None:
            shapes = [(), (0,), (2,), (2, 3), (1, 1, 2)]
        else:
            shapes = [tuple([0] * rank), tuple([1] * rank), tuple([2] + [1] * (rank - 1)), tuple([1] * (rank - 1) + [3]),
                      tuple(range(2, 2 + rank))]
            if rank >= 2:
                shapes.append(tuple([2] + [0] * (rank - 1)))
        out = []
        for si, shape in enumerate(dict.fromkeys(shapes)):
            n = 1
            for s in shape:
                n *= s
            cost = 0 if si == 0 else 1
            if cost > k:
                continue
            out.append(((shape, [d0] * n), cost))
            if n and k >= cost + 1:
                for x in nz[:2]:
                    out.append(((shape, [d0] * (n - 1) + [x]), cost + 1))
                if n >= 2 and nz:
                    out.append(((shape, [nz[0]] + [d0] * (n - 1)), cost + 1))
        return out
    if kind == "map":
        kd = [v for v, _ in vals(t[1], 1, json_safe)]
        out = [([], 0)]
        if k >= 1:
            for v, dv in vals(t[2], k - 1, json_safe):
                out.append(([(kd[0], v)], 1 + dv))
            if len(kd) >= 2:
                v0 = vals(t[2], 0, json_safe)[0][0]
                out.append(([(kd[0], v0), (kd[1], v0)], 1))
                if k >= 2:
                    ka, kb = (kd[1], kd[-1]) if len(kd) >= 3 else (kd[0], kd[1])      # two distinct keys (bool has only two)
                    for v, dv in vals(t[2], k - 1, json_safe)[1:3]:
                        out.append(([(ka, v0), (kb, v)], 1 + dv))
        return out
    raise ValueError(t)


def _product(types, k, json_safe):
    """All combinations of values of `types` with total deviations <= k."""
    if not types:
        return [((), 0)]
    out = []
    head = vals(types[0], k, json_safe)
    for v, dv in head:
        for rest, dr in _product(types[1:], k - dv, json_safe):
            out.append(((v,) + rest, dv + dr))
    return out


def values(t, k, json_safe=False, cap=None):
    out = [v for v, _ in vals(t, k, json_safe)]
    if cap and len(out) > cap:
        out = out[:cap]
    return out

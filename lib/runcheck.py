import argparse, importlib, os, sys, traceback

sys.path.insert(0, os.path.dirname(os.path.abspath(__file__)))
sys.path.insert(0, os.path.join(os.path.dirname(os.path.dirname(os.path.abspath(__file__))), "checks"))


def main():
    ap = argparse.ArgumentParser()
    ap.add_argument("prop")
    ap.add_argument("--tier", default=os.environ.get("VERIF_TIER", "quick"), choices=["quick", "thorough"])
    ap.add_argument("--replay", default=None)
    a = ap.parse_args()
    import build
    try:
        mod = importlib.import_module(a.prop.lower())
        if a.replay:
            rc = mod.replay(a.replay)
        else:
            rc = mod.main(a.tier)
    except build.HarnessError as e:
        print("HARNESS-ERROR %s: %s" % (a.prop, e))
        rc = 2
    except Exception:
        traceback.print_exc()
        print("HARNESS-ERROR %s: internal error in the checker" % a.prop)
        rc = 2
    sys.stdout.flush()
    sys.stderr.flush()
    _kill_descendants()
    build._cleanup()        # os._exit skips atexit handlers: remove the scratch directory here
    os._exit(rc)


def _kill_descendants():
    """No worker or harness process may outlive the check (a surviving worker keeps the caller's pipe open: after an
    internal error the whole command line used to hang instead of returning exit status 2)."""
    import signal
    me = os.getpid()
    for _ in range(3):
        kids = {}
        for d in os.listdir("/proc"):
            if d.isdigit():
                try:
                    with open("/proc/%s/stat" % d) as f:
                        parts = f.read().rsplit(")", 1)[1].split()
                    kids.setdefault(int(parts[1]), []).append(int(d))
                except (OSError, IndexError, ValueError):
                    pass
        todo, found = [me], []
        while todo:
            for c in kids.get(todo.pop(), []):
                found.append(c)
                todo.append(c)
        if not found:
            return
        for c in found:
            try:
                os.kill(c, signal.SIGKILL)
            except OSError:
                pass


main()

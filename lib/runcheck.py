import argparse, importlib, os, sys, traceback

sys.path.insert(0, os.path.dirname(os.path.abspath(__file__)))
sys.path.insert(0, os.path.join(os.path.dirname(os.path.dirname(os.path.abspath(__file__))), "checks"))


def main():
    ap = argparse.ArgumentParser()
    ap.add_argument("prop")
    ap.add_argument("--tier", default=os.environ.get("VERIF_TIER", "quick"), choices=["quick", "thorough"])
    ap.add_argument("--replay", default=None)
    a = ap.parse_args()
    import build
    try:
        mod = importlib.import_module(a.prop.lower())
        if a.replay:
            rc = mod.replay(a.replay)
        else:
            rc = mod.main(a.tier)
    except build.HarnessError as e:
        print("HARNESS-ERROR %s: %s" % (a.prop, e))
        rc = 2
    except Exception:
        traceback.print_exc()
        print("HARNESS-ERROR %s: internal error in the checker" % a.prop)
        rc = 2
    sys.stdout.flush()
    sys.exit(rc)


main()

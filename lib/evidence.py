"""Evidence files, known findings, VIOLATION / KNOWN-FINDING reporting."""
import json, os, re, sys, time

VERIF = os.path.dirname(os.path.dirname(os.path.abspath(__file__)))
# VERIF_OUT redirects evidence/ and replay/ (used by tools/seedtest_copy.sh so that a run against a patched copy of
# the repository never overwrites the evidence of the real tree). Registered commands never set it.
OUT = os.environ.get("VERIF_OUT") or VERIF


def load_findings(prop):
    """Returns {key: description} for `finding:` lines of this property. `fixed:` lines suppress nothing."""
    out = {}
    path = os.path.join(VERIF, "known_findings.txt")
    if not os.path.exists(path):
        return out
    for line in open(path):
        line = line.strip()
        m = re.match(r"finding:\s+property=(\S+)\s+key=(\S+)\s*(?:::\s*(.*))?$", line)
        if m and m.group(1) == prop:
            out[m.group(2)] = m.group(3) or ""
    return out


class Check:
    """Collects results of one check run and writes evidence / prints verdict lines."""

    def __init__(self, prop, level, tier, rule):
        self.prop = prop
        self.level = level
        self.tier = tier
        self.rule = rule
        self.seed = int(os.environ.get("VERIF_SEED", "0") or 0)
        self.t0 = time.time()
        self.evaluations = 0
        self.nontrivial = set()
        self.samples = []
        self.violations = []     # (key, description, replay dict)
        self.known = {}          # key -> [count, example]
        self.findings = load_findings(prop)
        self.extra = {}
        self.assumptions = []
        self.exhaustive = True
        self.outcomes = set()
        self.deadline = None

    # ---- accounting
    def count(self, n=1):
        self.evaluations += n

    def nontriv(self, key):
        self.nontrivial.add(key)

    def sample(self, s, limit=6):
        if len(self.samples) < limit:
            self.samples.append(s)

    def outcome(self, o):
        self.outcomes.add(o)

    def set_deadline(self, seconds):
        self.deadline = self.t0 + seconds

    def out_of_time(self):
        if self.deadline is not None and time.time() > self.deadline:
            self.exhaustive = False
            return True
        return False

    # ---- failures
    def fail(self, key, desc, replay):
        """key: canonical class of the failing case (matched against known findings by prefix/equality)."""
        for fk in self.findings:
            if key == fk or key.startswith(fk + "/") or (fk.endswith("*") and key.startswith(fk[:-1])):
                k = self.known.setdefault(fk, [0, desc])
                k[0] += 1
                return False
        self.violations.append((key, desc, replay))
        return True

    # ---- finish
    def finish(self):
        wall = time.time() - self.t0
        cov = {
            "evaluations": self.evaluations,
            "distinct_nontrivial": len(self.nontrivial),
            "rule": self.rule,
            "samples": self.samples or ["(none)"],
            "exhaustive": bool(self.exhaustive),
            "distinct_outcomes": len(self.outcomes),
        }
        cov.update(self.extra)
        ev = {
            "property_id": self.prop,
            "tier": self.tier,
            "seed": self.seed,
            "level": self.level,
            "coverage": cov,
            "assumptions": self.assumptions,
            "wall_s": round(wall, 2),
            "violations": len(self.violations),
            "known_findings": {k: v[0] for k, v in self.known.items()},
        }
        os.makedirs(os.path.join(OUT, "evidence"), exist_ok=True)
        with open(os.path.join(OUT, "evidence", self.prop + ".json"), "w") as f:
            json.dump(ev, f, indent=1, default=str)
        for fk, (n, ex) in sorted(self.known.items()):
            print("KNOWN-FINDING: property=%s %s (%d cases, e.g. %s)" % (self.prop, fk, n, " ".join(str(ex).split())[:300]))
        for fk in sorted(self.findings):
            if fk not in self.known:
                print("STALE-FINDING: property=%s %s did not reproduce in this tier" % (self.prop, fk))
        print("%s %s: evaluations=%d nontrivial=%d outcomes=%d exhaustive=%s wall=%.1fs %s" % (
            self.prop, self.tier, self.evaluations, len(self.nontrivial), len(self.outcomes), self.exhaustive, wall,
            " ".join("%s=%s" % (k, v) for k, v in self.extra.items() if isinstance(v, (int, float, bool)))))
        if self.extra.get("harness_errors"):
            for e in self.extra["harness_errors"][:10]:
                print("HARNESS-ERROR %s: %s" % (self.prop, str(e)[:600]))
            return 2
        if self.violations:
            rdir = os.path.join(OUT, "replay", self.prop)
            os.makedirs(rdir, exist_ok=True)
            seen = set()
            for i, (key, desc, replay) in enumerate(self.violations):
                if key in seen and i > 20:
                    continue
                seen.add(key)
                safe = re.sub(r"[^A-Za-z0-9_.-]+", "_", key)[:80]
                path = os.path.join(rdir, "%03d_%s.json" % (i, safe))
                with open(path, "w") as f:
                    json.dump({"property": self.prop, "key": key, "description": desc, "case": replay}, f, indent=1,
                              default=str)
                if i < 25:
                    print("VIOLATION property=%s replay=%s  # %s: %s" % (self.prop, path, key, " ".join(desc.split())[:300]))
            print("%s: %d violation(s) in %d classes" % (self.prop, len(self.violations), len(seen)))
            return 1
        return 0


def export_state(chk):
    return {"evaluations": chk.evaluations, "nontrivial": chk.nontrivial, "samples": chk.samples,
            "violations": chk.violations, "known": chk.known, "outcomes": chk.outcomes, "exhaustive": chk.exhaustive,
            "extra": chk.extra}


def merge_state(chk, st):
    chk.evaluations += st["evaluations"]
    chk.nontrivial |= st["nontrivial"]
    for s in st["samples"]:
        chk.sample(s)
    chk.violations += st["violations"]
    for k, (n, ex) in st["known"].items():
        cur = chk.known.setdefault(k, [0, ex])
        cur[0] += n
    chk.outcomes |= st["outcomes"]
    chk.exhaustive = chk.exhaustive and st["exhaustive"]
    for k, v in st["extra"].items():
        if isinstance(v, (int, float)) and not isinstance(v, bool):
            chk.extra[k] = chk.extra.get(k, 0) + v
        elif isinstance(v, list):
            chk.extra.setdefault(k, [])
            chk.extra[k] += v
        else:
            chk.extra[k] = v

"""Abstract model (AM) of yardl packages: our own data structure from which both the YAML fed to yardl
and the inputs of the reference models are derived (the oracle never depends on yardl's parser).

Types are tuples:
  ('prim', name) | ('named', name, (args...)) | ('tparam', name) | ('opt', T) |
  ('union', ((tag|None, T|None), ...))      null case = (None, None); tag None = derived by yardl
  ('vec', T, n|None) | ('arr', T, dims) | ('map', K, V) | ('stream', T)
  dims: None (dynamic rank) | int (rank, unnamed) | tuple of (name|None, length|None)
"""
import re

PRIMS = ["bool", "int8", "uint8", "int16", "uint16", "int32", "uint32", "int64", "uint64", "size",
         "float32", "float64", "complexfloat32", "complexfloat64", "string", "date", "time", "datetime"]
PRIM_ALIASES = {"byte": "uint8", "int": "int32", "uint": "uint32", "long": "int64", "ulong": "uint64",
                "float": "float32", "double": "float64", "complexfloat": "complexfloat32",
                "complexdouble": "complexfloat64"}
INT_RANGE = {"int8": (-2**7, 2**7 - 1), "uint8": (0, 2**8 - 1), "int16": (-2**15, 2**15 - 1), "uint16": (0, 2**16 - 1),
             "int32": (-2**31, 2**31 - 1), "uint32": (0, 2**32 - 1), "int64": (-2**63, 2**63 - 1),
             "uint64": (0, 2**64 - 1), "size": (0, 2**64 - 1)}
SIGNED = {"int8", "int16", "int32", "int64"}


def P(name):
    return ("prim", PRIM_ALIASES.get(name, name))


def N(name, *args):
    return ("named", name, tuple(args))


def TP(name):
    return ("tparam", name)


def Opt(t):
    return ("opt", t)


def Union(*cases):
    """cases: type | (tag, type) | None"""
    out = []
    for c in cases:
        if c is None:
            out.append((None, None))
        elif isinstance(c, tuple) and len(c) == 2 and (c[0] is None or isinstance(c[0], str)) and c[0] not in (
                "prim", "named", "tparam", "opt", "union", "vec", "arr", "map", "stream"):
            out.append((c[0], c[1]))
        else:
            out.append((None, c))
    return ("union", tuple(out))


def Vec(t, n=None):
    return ("vec", t, n)


def Arr(t, dims=None):
    if isinstance(dims, list):
        dims = tuple(d if isinstance(d, tuple) else (None, d) for d in dims)
    return ("arr", t, dims)


def Map(k, v):
    return ("map", k, v)


def Stream(t):
    return ("stream", t)


class Record:
    kind = "record"

    def __init__(self, name, fields, tparams=(), computed=(), comment=None):
        self.name, self.fields, self.tparams, self.computed, self.comment = name, list(fields), tuple(tparams), list(computed), comment


class Enum:
    kind = "enum"

    def __init__(self, name, values, base=None, flags=False, comment=None):
        """values: list of (symbol, int)"""
        self.name, self.values, self.base, self.flags, self.comment = name, list(values), base, flags, comment
        self.tparams = ()


class Alias:
    kind = "alias"

    def __init__(self, name, type, tparams=(), comment=None):
        self.name, self.type, self.tparams, self.comment = name, type, tuple(tparams), comment


class Protocol:
    kind = "protocol"

    def __init__(self, name, steps, comment=None):
        self.name, self.steps, self.comment = name, list(steps), comment


class Package:
    def __init__(self, namespace, defs=(), protocols=(), imports=(), versions=(), dirname=None):
        """imports: list of Package; versions: list of (label, Package)"""
        self.namespace = namespace
        self.defs = list(defs)
        self.protocols = list(protocols)
        self.imports = list(imports)
        self.versions = list(versions)
        self.dirname = dirname or namespace.lower()

    def lookup(self, name):
        """Returns (package, definition) for 'Name' or 'Ns.Name'."""
        if "." in name:
            ns, n = name.split(".", 1)
            for p in self.all_packages():
                if p.namespace == ns:
                    for d in p.defs:
                        if d.name == n:
                            return p, d
            raise KeyError(name)
        for d in self.defs:
            if d.name == name:
                return self, d
        raise KeyError(name)

    def all_packages(self):
        seen, out = set(), []

        def rec(p):
            if id(p) in seen:
                return
            seen.add(id(p))
            for i in p.imports:
                rec(i)
            out.append(p)

        rec(self)
        return out


# ------------------------------------------------------------------ YAML printing
_SIMPLE = re.compile(r"^[A-Za-z0-9_.]+$")


def _q(s):
    return s if _SIMPLE.match(s) else '"%s"' % s


def is_simple(t):
    return t[0] in ("prim", "tparam") or (t[0] == "named")


def short(t):
    """Shorthand string for a type, or None when the type has no (unambiguous) shorthand."""
    k = t[0]
    if k == "prim" or k == "tparam":
        return t[1]
    if k == "named":
        if not t[2]:
            return t[1]
        args = [short(a) for a in t[2]]
        if any(a is None for a in args):
            return None
        return "%s<%s>" % (t[1], ", ".join(args))
    if k == "opt" and is_simple(t[1]):
        s = short(t[1])
        return None if s is None else s + "?"
    if k == "vec" and is_simple(t[1]):
        s = short(t[1])
        return None if s is None else s + "*" + (str(t[2]) if t[2] is not None else "")
    if k == "arr" and is_simple(t[1]):
        s = short(t[1])
        if s is None:
            return None
        d = t[2]
        if d is None:
            return s + "[]"
        if isinstance(d, int):
            return s + "[" + "," * (d - 1) + "]" if d >= 2 else None
        parts = []
        for (n, l) in d:
            if n is not None and l is not None:
                parts.append("%s:%d" % (n, l))
            elif n is not None:
                parts.append(n)
            elif l is not None:
                parts.append(str(l))
            else:
                return None
        if len(d) == 1 and d[0][0] is None and d[0][1] is None:
            return None
        return s + "[" + ",".join(parts) + "]"
    if k == "map" and is_simple(t[1]) and is_simple(t[2]):
        a, b = short(t[1]), short(t[2])
        return None if a is None or b is None else "%s->%s" % (a, b)
    return None


def yaml_type(t, expanded=False):
    """Flow-style YAML for a type. expanded=True forces the expanded (!vector/!array/...) syntax at the top."""
    if t is None:
        return "null"
    if not expanded:
        s = short(t)
        if s is not None:
            return _q(s)
    k = t[0]
    if k in ("prim", "tparam"):
        return t[1]
    if k == "named":
        if not t[2]:
            return t[1]
        return "!generic {name: %s, args: [%s]}" % (t[1], ", ".join(yaml_type(a) for a in t[2]))
    if k == "opt":
        return "[null, %s]" % yaml_type(t[1])
    if k == "union":
        if all(tag is None for tag, _ in t[1]):
            return "[%s]" % ", ".join(yaml_type(c) for _, c in t[1])
        parts = []
        for tag, c in t[1]:
            if c is None:
                parts.append("null: null")
            else:
                assert tag is not None, "mixed explicit/implicit tags"
                parts.append("%s: %s" % (tag, yaml_type(c)))
        return "!union {%s}" % ", ".join(parts)
    if k == "vec":
        return "!vector {items: %s%s}" % (yaml_type(t[1]), "" if t[2] is None else ", length: %d" % t[2])
    if k == "arr":
        d = t[2]
        if d is None:
            return "!array {items: %s}" % yaml_type(t[1])
        if isinstance(d, int):
            return "!array {items: %s, dimensions: %d}" % (yaml_type(t[1]), d)
        if all(n is None for n, _ in d):
            if all(l is not None for _, l in d):
                return "!array {items: %s, dimensions: [%s]}" % (yaml_type(t[1]), ", ".join(str(l) for _, l in d))
            return "!array {items: %s, dimensions: %d}" % (yaml_type(t[1]), len(d))
        return "!array {items: %s, dimensions: {%s}}" % (
            yaml_type(t[1]), ", ".join("%s: %s" % (n, "" if l is None else l) for n, l in d))
    if k == "map":
        return "!map {keys: %s, values: %s}" % (yaml_type(t[1]), yaml_type(t[2]))
    if k == "stream":
        return "!stream {items: %s}" % yaml_type(t[1])
    raise ValueError(t)


def _name(d):
    return d.name + ("<%s>" % ", ".join(d.tparams) if getattr(d, "tparams", ()) else "")


def yaml_def(d, expanded=False):
    out = []
    if getattr(d, "comment", None):
        for l in d.comment.split("\n"):
            out.append("# " + l)
    if d.kind == "record":
        out.append("%s: !record" % _name(d))
        out.append("  fields:")
        for fn, ft in d.fields:
            out.append("    %s: %s" % (fn, yaml_type(ft, expanded)))
        if d.computed:
            out.append("  computedFields:")
            for cn, ce in d.computed:
                if isinstance(ce, str):
                    out.append("    %s: %s" % (cn, _q(ce) if not ce.startswith("!") else ce))
                else:
                    out.append("    %s:" % cn)
                    for l in ce:
                        out.append("      " + l)
    elif d.kind == "enum":
        out.append("%s: %s" % (d.name, "!flags" if d.flags else "!enum"))
        if d.base:
            out.append("  base: %s" % d.base)
        out.append("  values:")
        for s, v in d.values:
            out.append("    %s: %d" % (s, v))
    elif d.kind == "alias":
        out.append("%s: %s" % (_name(d), yaml_type(d.type, expanded)))
    elif d.kind == "protocol":
        out.append("%s: !protocol" % d.name)
        out.append("  sequence:")
        for sn, st in d.steps:
            out.append("    %s: %s" % (sn, yaml_type(st, expanded)))
    return "\n".join(out) + "\n"


def yaml_model(pkg, expanded=False):
    return "\n".join(yaml_def(d, expanded) for d in list(pkg.defs) + list(pkg.protocols))


def package_files(pkg, root="", targets=("cpp", "python"), cpp_opts=None, seen=None, extra_pkg_yaml=""):
    """Returns {relative path: text} for pkg and (recursively) its imports and versions.
    Directory of a package = root/<dirname>; imports are referenced as ../<dirname>."""
    files = {}
    seen = seen if seen is not None else set()
    if id(pkg) in seen:
        return files
    seen.add(id(pkg))
    d = pkg.dirname
    y = "namespace: %s\n" % pkg.namespace
    if pkg.imports:
        y += "imports:\n" + "".join("  - ../%s\n" % i.dirname for i in pkg.imports)
    if pkg.versions:
        y += "versions:\n" + "".join("  %s: ../%s\n" % (lbl, v.dirname) for lbl, v in pkg.versions)
    if "cpp" in targets:
        o = {"sourcesOutputDir": "../out_%s/cpp" % d, "generateHDF5": "false", "generateCMakeLists": "false",
             "overrideArrayHeader": "verif_ndarray.h"}
        o.update(cpp_opts or {})
        y += "cpp:\n" + "".join("  %s: %s\n" % kv for kv in o.items())
    if "python" in targets:
        y += "python:\n  outputDir: ../out_%s/py\n" % d
    if "json" in targets:
        y += "json:\n  outputDir: ../out_%s/json\n" % d
    if "matlab" in targets:
        y += "matlab:\n  outputDir: ../out_%s/matlab\n" % d
    y += extra_pkg_yaml
    files["%s/_package.yml" % d] = y
    files["%s/model.yml" % d] = yaml_model(pkg)
    for i in pkg.imports:
        files.update(package_files(i, root, targets=(), seen=seen))
    for _, v in pkg.versions:
        files.update(package_files(v, root, targets=(), seen=seen))
    return {(root + "/" + k if root else k): v for k, v in files.items()}


# ------------------------------------------------------------------ resolution to concrete types
def subst(t, env):
    if t is None:
        return None
    k = t[0]
    if k == "tparam":
        return env[t[1]]
    if k in ("prim", "closed"):
        return t
    if k == "named":
        return ("named", t[1], tuple(subst(a, env) for a in t[2]))
    if k == "opt":
        return ("opt", subst(t[1], env))
    if k == "union":
        # yardl derives tags at the definition, before type arguments are known
        cases = tuple((tag if (tag is not None or c is None) else default_tag(c), subst(c, env)) for tag, c in t[1])
        # ... or a map keyed by a type parameter (an object for string keys, an array of pairs otherwise)
        generic = len(t) > 2 or any(c is not None and (c[0] == "tparam" or (c[0] == "map" and c[1][0] == "tparam")) for _, c in t[1])
        return ("union", cases, "generic") if generic else ("union", cases)
    if k == "vec":
        return ("vec", subst(t[1], env), t[2])
    if k == "arr":
        return ("arr", subst(t[1], env), t[2])
    if k == "map":
        return ("map", subst(t[1], env), subst(t[2], env))
    if k == "stream":
        return ("stream", subst(t[1], env))
    raise ValueError(t)


def resolve(pkg, t):
    """Concrete type tree:
      ('prim', n) | ('enum', Enum, qualified name) | ('record', qualified name, [(fname, ctype)...]) | ('opt', c) |
      ('union', ((tag, c|None),...)) | ('vec', c, n) | ('arr', c, dims) | ('map', ck, cv) | ('stream', c)
    Optionals of the form [null, T] and T? are both ('opt', c)."""
    if t is None:
        return None
    k = t[0]
    if k == "prim":
        return t
    if k == "named":
        p, d = pkg.lookup(t[1])
        env = dict(zip(d.tparams, [_close(pkg, a) for a in t[2]]))
        if d.kind == "alias":
            return resolve(p, subst_closed(d.type, env))
        if d.kind == "enum":
            return ("enum", d, p.namespace + "." + d.name)
        if d.kind == "record":
            return ("record", p.namespace + "." + d.name, [(fn, resolve(p, subst_closed(ft, env))) for fn, ft in d.fields])
    if k == "closed":
        return t[1]
    if k == "opt":
        return ("opt", resolve(pkg, t[1]))
    if k == "union":
        cases = t[1]
        if len(cases) == 2 and cases[0][1] is None:
            return ("opt", resolve(pkg, cases[1][1]))
        if len(cases) == 1:
            return resolve(pkg, cases[0][1])
        return ("union", tuple((tag if tag is not None else (default_tag(c) if c is not None else None),
                                resolve(pkg, c)) for tag, c in cases)) + t[2:]
    if k == "vec":
        return ("vec", resolve(pkg, t[1]), t[2])
    if k == "arr":
        return ("arr", resolve(pkg, t[1]), t[2])
    if k == "map":
        return ("map", resolve(pkg, t[1]), resolve(pkg, t[2]))
    if k == "stream":
        return ("stream", resolve(pkg, t[1]))
    raise ValueError(t)


def _close(pkg, t):
    """A type argument is resolved in the package where it is written; wrap the concrete result."""
    return ("closed", resolve(pkg, t))


def subst_closed(t, env):
    if not env:
        return t
    return subst(t, env)


def default_tag(t):
    """Tag yardl derives for simple types (documented: 'derived from its type name')."""
    if t[0] in ("prim", "tparam"):
        return t[1]
    if t[0] == "named" and not t[2]:
        return t[1].split(".")[-1]
    if t[0] == "closed":
        return None
    return None  # not relied upon: AM users give explicit tags for anything else
